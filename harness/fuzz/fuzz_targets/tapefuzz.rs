#![no_main]
//! Generic libFuzzer target: the input is the choice tape (one byte per element, `Mode::Bytes`) of one random stage
//! of one property (`HV_PROP`, `HV_STAGE`); the stage's decoder builds the case and the property's oracle judges it.
//! A violated oracle aborts, so libFuzzer keeps the input; panics of the code under test abort by themselves.
use libfuzzer_sys::fuzz_target;

fuzz_target!(|data: &[u8]| {
    hootverif::infra::tapefuzz::one_input(data);
});
