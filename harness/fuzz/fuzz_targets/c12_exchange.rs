#![no_main]
//! C12 libFuzzer target: bytes -> (request configuration, arrival/buffer schedule, server bytes) -> tolerant
//! driver with the C12 oracle inside. A violation of the oracle is turned into a panic so that libFuzzer saves
//! the input; panics of the code under test surface by themselves.
use libfuzzer_sys::fuzz_target;

fuzz_target!(|data: &[u8]| {
    if let Err(m) = hootverif::drive::chaos::run_bytes(data) {
        panic!("C12 oracle: {}", m);
    }
});
