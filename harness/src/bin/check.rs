use hootverif::infra::runner::{install_panic_hook, replay_file, run_property, RunCfg, Tier};
use hootverif::props;
use std::path::PathBuf;

fn usage() -> ! {
    eprintln!("usage: check <ID> [--tier quick|thorough] [--replay FILE] | check --list");
    std::process::exit(2);
}

fn main() {
    let args: Vec<String> = std::env::args().skip(1).collect();
    if args.is_empty() {
        usage();
    }
    if args[0] == "--list" {
        for d in props::all() {
            println!("{}", d.id);
        }
        return;
    }
    let id = args[0].clone();
    let mut tier = match std::env::var("VERIF_TIER").ok().as_deref() {
        Some("thorough") => Tier::Thorough,
        _ => Tier::Quick,
    };
    let mut replay: Option<PathBuf> = None;
    let mut i = 1;
    while i < args.len() {
        match args[i].as_str() {
            "--tier" => {
                i += 1;
                tier = match args.get(i).map(|s| s.as_str()) {
                    Some("quick") => Tier::Quick,
                    Some("thorough") => Tier::Thorough,
                    _ => usage(),
                };
            }
            "--replay" => {
                i += 1;
                replay = Some(PathBuf::from(args.get(i).cloned().unwrap_or_else(|| usage())));
            }
            _ => usage(),
        }
        i += 1;
    }
    let def = match props::by_id(&id) {
        Some(d) => d,
        None => {
            eprintln!("unknown property {}", id);
            std::process::exit(2);
        }
    };
    let verif_dir = PathBuf::from(std::env::var("VERIF_DIR").unwrap_or_else(|_| "/verif".to_string()));
    install_panic_hook();

    // watchdog: a run that exceeds its budget is inconclusive (exit 2), never a violation
    let budget: u64 = std::env::var("VERIF_WATCHDOG_S")
        .ok()
        .and_then(|s| s.parse().ok())
        .unwrap_or(match tier {
            Tier::Quick => 1_500,
            Tier::Thorough => 4 * 3_600,
        });
    std::thread::spawn(move || {
        std::thread::sleep(std::time::Duration::from_secs(budget));
        println!("INCONCLUSIVE property={} watchdog after {} s", id, budget);
        std::process::exit(2);
    });

    if let Some(path) = replay {
        // libFuzzer artifacts (raw bytes) are replayed through the same driver and oracle
        let raw = std::fs::read(&path).unwrap_or_default();
        if def.id == "C12" && raw.first() != Some(&b'{') {
            let res = std::panic::catch_unwind(|| hootverif::props::c12::replay_artifact(&path));
            match res {
                Ok(Ok(info)) => {
                    println!("replay {}: property C12 holds on this input ({})", path.display(), info);
                    std::process::exit(0);
                }
                Ok(Err(m)) => {
                    println!("failure: {}", m);
                    println!("VIOLATION property=C12 replay={}", path.display());
                    std::process::exit(1);
                }
                Err(_) => {
                    println!("failure: panic while replaying the artifact");
                    println!("VIOLATION property=C12 replay={}", path.display());
                    std::process::exit(1);
                }
            }
        }
        match replay_file(def, &verif_dir, &path) {
            Ok(st) => {
                for (k, (n, d)) in &st.known_hits {
                    println!("KNOWN-FINDING: property={} key={} hits={} {}", def.id, k, n, d);
                }
                if let Some(d) = &st.desc {
                    println!("case: {}", d);
                }
                println!("replay {}: property {} holds on this input", path.display(), def.id);
                std::process::exit(0);
            }
            Err(v) => {
                if let Some(d) = &v.desc {
                    println!("case: {}", d);
                }
                println!("failure: {}", v.message);
                println!("VIOLATION property={} replay={}", def.id, path.display());
                std::process::exit(1);
            }
        }
    }

    let seed: u64 = std::env::var("VERIF_SEED")
        .ok()
        .and_then(|s| s.trim().parse::<i64>().ok())
        .map(|v| v as u64)
        .unwrap_or(0);
    let threads: usize = std::env::var("VERIF_THREADS")
        .ok()
        .and_then(|s| s.parse().ok())
        .unwrap_or(match tier {
            Tier::Quick => 8,
            Tier::Thorough => 16,
        });
    let cfg = RunCfg {
        tier,
        seed,
        threads,
        verif_dir,
    };
    let out = run_property(def, &cfg);
    for l in &out.known_lines {
        println!("{}", l);
    }
    for (v, p) in &out.violations {
        println!("failure[{}]: {}", v.stage, v.message);
        println!("VIOLATION property={} replay={}", def.id, p.display());
    }
    println!("{}", out.summary);
    println!("evidence: {}", out.evidence_path.display());
    std::process::exit(if out.violations.is_empty() { 0 } else { 1 });
}
