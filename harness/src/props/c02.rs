//! C02 — request head on the wire is well-formed and faithful to the request.

use super::reqhead::{case_json, gen_case, run_case};
use crate::infra::runner::{PropDef, RandomDef, Tier};
use crate::infra::stats::Stats;
use crate::infra::tape::Tape;

fn exec(t: &mut Tape, st: &mut Stats) -> Result<(), String> {
    let c = gen_case(t, false);
    st.describe(|| case_json(&c));
    let out = run_case(&c, t, st)?;
    st.case_digest = t.digest();
    let repeated = {
        let mut names: Vec<String> = c.spec.orig.iter().chain(c.added.iter()).map(|(k, _)| k.to_ascii_lowercase()).collect();
        let n = names.len();
        names.sort();
        names.dedup();
        names.len() < n
    };
    let obs = c.spec.orig.iter().chain(c.added.iter()).any(|(_, v)| v.iter().any(|b| *b >= 0x80));
    st.class(match c.hops.len() {
        0 => "depth_0",
        1 => "depth_1",
        _ => "depth_2_3",
    });
    if out.info.overflows > 0 {
        st.class("had_overflow");
    }
    if c.despite {
        st.class("despite");
    }
    if matches!(c.api, super::reqhead::ApiSel::Call) {
        st.class("call_api");
    }
    if (out.info.calls >= 3 || out.info.overflows >= 1) && (repeated || obs || !c.hops.is_empty()) {
        st.nontrivial(st.case_digest);
        if st.wants_sample() && out.head_len < 260 {
            st.sample(case_json(&c));
        }
    }
    Ok(())
}

pub static DEF: PropDef = PropDef {
    id: "C02",
    rule: "random requests: absolute http/https URI (host pool, optional default/non-default port, 0..4 path segments, optional \
query, never empty path with query), 9 methods x HTTP/1.0/1.1 (valid pairs), 0..60 original and 0..60 caller-added headers (pool \
names in mixed case, random x-* tokens over the full token alphabet, repeated names, cookie, authorization, connection, expect; \
values over visible ASCII, inner SP/HTAB, obs-text, empty), Host none/original/added, at most one of Content-Length / \
Transfer-Encoding: chunked from either side, send-body-despite-method, redirect depth 0..3 (real 3xx exchanges, both auth policies), \
Flow and single-call API; always C17-valid by construction. Each case: (1) one-shot emission parsed by a strict request-head parser \
and compared with the model: request line, exactly one Host (URI host when none supplied), exactly the framing field the body then \
really uses on the wire (a short body is sent and decoded), caller-added fields first in order, then the inherited ones per-name in \
order; (2) the same request emitted again under a generated buffer-size schedule (ample, exact fit, fit-1, fit+1, 0..12, two lines, \
line without its glued empty line, random), every call checked: whole lines, bytes equal to the one-shot head, OutputOverflow iff \
the next line does not fit, readiness only at the end, 0..3 extra calls after completion emit nothing; body still correct afterwards. \
non-trivial = head emitted in >= 3 calls or with >= 1 overflow, and (repeated name or obs-text value or redirect depth >= 1); \
distinct by decoded-choice digest.",
    assumptions: &[
        "position of the automatic Host / framing fields is not constrained",
        "the final empty line may travel with the last header line (both readings of 'next line' accepted)",
        "original requests that are redirected carry no Transfer-Encoding of their own (DESIGN 5.3)",
        "only output[..n] of Ok(n) is inspected",
    ],
    exec,
    enums: &[],
    randoms: &[RandomDef {
        name: "requests",
        cases: |t: Tier| t.pick(300_000, 12_000_000),
        tape_len: 1_400,
        exec: None,
    }],
    extra: None,
};
