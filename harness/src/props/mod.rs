use crate::infra::runner::PropDef;

pub mod c01;
pub mod c02;
pub mod c03;
pub mod c04;
pub mod c05;
pub mod c06;
pub mod c07;
pub mod c08;
pub mod c09;
pub mod c10;
pub mod c11;
pub mod c12;
pub mod c13;
pub mod c14;
pub mod c15;
pub mod c16;
pub mod c17;
pub mod c18;
pub mod c19;
pub mod c20;

pub mod reqhead;

pub fn all() -> Vec<&'static PropDef> {
    vec![&c01::DEF, &c02::DEF, &c03::DEF, &c04::DEF, &c05::DEF, &c06::DEF, &c07::DEF, &c08::DEF, &c09::DEF, &c10::DEF, &c11::DEF, &c12::DEF, &c13::DEF, &c14::DEF, &c15::DEF, &c16::DEF, &c17::DEF, &c18::DEF, &c19::DEF, &c20::DEF]
}

pub fn by_id(id: &str) -> Option<&'static PropDef> {
    all().into_iter().find(|d| d.id == id)
}
