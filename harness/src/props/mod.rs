use crate::infra::runner::PropDef;

pub mod c18;
pub mod c19;

pub fn all() -> Vec<&'static PropDef> {
    vec![&c18::DEF, &c19::DEF]
}

pub fn by_id(id: &str) -> Option<&'static PropDef> {
    all().into_iter().find(|d| d.id == id)
}
