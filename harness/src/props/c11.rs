//! C11 — Expect: 100-continue handshake: the body is sent iff the server did not refuse.

use serde_json::{json, Value};
use ureq_proto::client::flow::{Await100Result, Flow, SendRequestResult};
use ureq_proto::http::Method;

use crate::drive::exchange::{check_against_truth, finish_response, AwaitMode, ExchangeSpec, Outcome, ReqConn, ReqFraming, RespSpec, Sched, ServerPre};
use crate::drive::exgen::{gen_coding, no_body_clause};
use crate::drive::sender::pattern;
use crate::infra::runner::{PropDef, RandomDef, Tier};
use crate::infra::stats::Stats;
use crate::infra::tape::Tape;
use crate::model::chunk::{encode, StrictDechunk};
use crate::model::head::{gen_plain_fields, Field, RespHead};

#[derive(Clone, Debug)]
struct Case {
    method: Method,
    despite: bool,
    req_v10: bool,
    req_conn: ReqConn,
    req_framing: ReqFraming,
    body: Vec<u8>,
    /// Some: the server first sends this bare 100; None: it answers with `resp` straight away
    hundred: Option<Vec<u8>>,
    resp: RespSpec,
}

fn case_json(c: &Case) -> Value {
    json!({
        "method": c.method.as_str(), "despite": c.despite, "req_http10": c.req_v10, "req_connection": format!("{:?}", c.req_conn),
        "req_framing": format!("{:?}", c.req_framing), "req_body_len": c.body.len(),
        "interim": c.hundred.as_ref().map(|h| String::from_utf8_lossy(h).to_string()),
        "response_head": String::from_utf8_lossy(&c.resp.head.bytes()).to_string(),
        "response_body_wire_len": c.resp.body_wire.len(),
    })
}

fn gen_case(t: &mut Tape) -> Case {
    let req_v10 = t.chance(20);
    let (method, despite) = if req_v10 {
        if t.chance(75) { (Method::POST, false) } else { (Method::GET, true) }
    } else {
        match t.weighted(&[3, 2, 2, 1, 1]) {
            0 => (Method::POST, false),
            1 => (Method::PUT, false),
            2 => (Method::PATCH, false),
            3 => (Method::GET, true),
            _ => (Method::DELETE, true),
        }
    };
    let req_conn = match t.weighted(&[5, 1, 1]) {
        0 => ReqConn::Absent,
        1 => ReqConn::Close,
        _ => ReqConn::KeepAlive,
    };
    let req_framing = *t.pick(&[ReqFraming::Auto, ReqFraming::Cl, ReqFraming::Te]);
    let blen = t.small_len(60);
    let body = pattern()[40..40 + blen].to_vec();
    let is_hundred = t.chance(45);
    let v11 = !t.chance(25);
    let off = t.below(100);
    let mk_final = |t: &mut Tape, status: u16, allow_fieldless: bool| -> RespSpec {
        let nfields = if allow_fieldless && t.chance(35) { 0 } else { t.range(1, 4) };
        let mut fields = if nfields == 0 { vec![] } else { gen_plain_fields(t, nfields - 1, true) };
        let mut body_wire = vec![];
        let mut payload = vec![];
        let mut close_delimited = false;
        let nobody = no_body_clause(&method, status);
        let is3xx = (300..400).contains(&status);
        if nfields == 0 {
            // bare head: no framing fields at all
            if !nobody && !is3xx {
                let n = t.small_len(20);
                payload = pattern()[off..off + n].to_vec();
                body_wire = payload.clone();
                close_delimited = true;
            }
        } else {
            let choice = t.weighted(&[3, 2, 2, 1]);
            match choice {
                0 => {
                    let n = t.range(1, 30);
                    fields.push(Field::new("Content-Length", &n.to_string()));
                    if !nobody {
                        payload = pattern()[off..off + n].to_vec();
                        body_wire = payload.clone();
                    }
                }
                1 => fields.push(Field::new("content-length", "0")),
                2 if v11 => {
                    fields.push(Field::new("Transfer-Encoding", "chunked"));
                    if !nobody {
                        let n = t.small_len(40);
                        payload = pattern()[off..off + n].to_vec();
                        body_wire = encode(&gen_coding(t, n), &payload).bytes;
                    }
                }
                _ => {
                    fields.push(Field::new("X-Last", "1"));
                    if !nobody && !is3xx {
                        let n = t.small_len(20);
                        payload = pattern()[off..off + n].to_vec();
                        body_wire = payload.clone();
                        close_delimited = true;
                    }
                }
            }
            if is3xx && t.chance(60) {
                fields.insert(0, Field::new("Location", "/elsewhere"));
            }
            if t.chance(25) {
                fields.push(Field::new("Connection", *t.pick(&["close", "keep-alive"])));
            }
        }
        let reason = match t.weighted(&[4, 1, 1, 2]) {
            0 => Some(b"Reason".to_vec()),
            1 => None,
            2 => Some(vec![]),
            // a status line far longer than the usual ones
            _ => Some(vec![b'r'; t.range(45, 200)]),
        };
        RespSpec { head: RespHead { v11, status, reason, fields }, body_wire, payload, close_delimited }
    };
    if is_hundred {
        let hv = if t.chance(25) { "HTTP/1.0" } else { "HTTP/1.1" };
        let h = match t.weighted(&[3, 1, 1, 1]) {
            0 => format!("{} 100 Continue\r\n\r\n", hv),
            1 => format!("{} 100\r\n\r\n", hv),
            2 => format!("{} 100 \r\n\r\n", hv),
            _ => format!("{} 100 {}\r\n\r\n", hv, "c".repeat(60)),
        };
        let status = *t.pick(&[200u16, 201, 204, 404, 302, 500]);
        let resp = mk_final(t, status, false);
        Case { method, despite, req_v10, req_conn, req_framing, body, hundred: Some(h.into_bytes()), resp }
    } else {
        let status = match t.weighted(&[3, 2, 2]) {
            0 => *t.pick(&[403u16, 417, 401, 413, 400]),
            1 => *t.pick(&[200u16, 204, 301, 302, 304, 500, 101]),
            _ => t.range(101, 599) as u16,
        };
        let resp = mk_final(t, status, true);
        Case { method, despite, req_v10, req_conn, req_framing, body, hundred: None, resp }
    }
}

fn spec_for(c: &Case, await_mode: AwaitMode) -> ExchangeSpec {
    ExchangeSpec {
        method: c.method.clone(),
        req_v10: c.req_v10,
        uri: "http://h.test/upload".into(),
        req_conn: c.req_conn,
        expect: true,
        despite: c.despite,
        req_framing: c.req_framing,
        extra_headers: vec![],
        body: c.body.clone(),
        await_mode,
        server_pre: match &c.hundred {
            Some(h) => ServerPre::Continue(h.clone()),
            None => ServerPre::Refuse,
        },
        resp: c.resp.clone(),
        // framing header on the request, or added with Flow::header() before / after send_body_despite_method()
        prep: (c.body.len() % 3) as u8,
    }
}

use crate::drive::reasons::classify;

/// One (case, look-prefix) run: windows grow to `p` in the given steps; then the caller proceeds.
fn run_prefix(c: &Case, p: usize, steps: &[usize], s: &mut Sched, st: &mut Stats) -> Result<(), String> {
    let probe = spec_for(c, AwaitMode::Look);
    let stream = probe.stream();
    let first_head: Vec<u8> = match &c.hundred {
        Some(h) => h.clone(),
        None => c.resp.head.bytes(),
    };
    let hlen = first_head.len();
    let status_line_end = first_head.windows(2).position(|w| w == b"\r\n").unwrap() + 2;
    let what = |m: String| format!("look-prefix {} of {} (steps {:?}): {}", p, hlen, steps, m);

    let mut f = Flow::new(probe.request()?).map_err(|e| format!("Flow::new: {:?}", e))?;
    if probe.prep == 1 {
        for (k, v) in probe.flow_headers() {
            f.header(k.as_str(), v.as_str()).map_err(|e| format!("Flow::header: {:?}", e))?;
        }
    }
    if c.despite {
        f.send_body_despite_method();
    }
    if probe.prep == 2 {
        for (k, v) in probe.flow_headers() {
            f.header(k.as_str(), v.as_str()).map_err(|e| format!("Flow::header: {:?}", e))?;
        }
    }
    let mut sr = f.proceed();
    let mut out = vec![0u8; 4096];
    let req_head = crate::drive::redirect::write_head_until_ready(&mut sr, &mut out).map_err(|e| format!("head write: {:?}", e))?;
    let mut a = match sr.proceed().map_err(|e| format!("{:?}", e))?.ok_or("head incomplete")? {
        SendRequestResult::Await100(a) => a,
        // a body of zero bytes: whether it is "due" - and with it the handshake - is not stated
        SendRequestResult::RecvResponse(_) if probe.req_framing == ReqFraming::Cl && probe.body.is_empty() => {
            st.class("zero_length_body_with_expect_has_no_body_state");
            return Ok(());
        }
        _ => return Err(what("Expect: 100-continue with a body due did not enter Await100".into())),
    };
    let mut consumed = 0usize;
    let mut decided = false;
    for &q in steps {
        if !a.can_keep_await_100() {
            break;
        }
        let win = &stream[..q];
        let r = a.try_read_100(win).map_err(|e| what(format!("try_read_100 on the first {} bytes failed: {:?}", q, e)))?;
        st.evals(1);
        let keep = a.can_keep_await_100();
        if c.hundred.is_some() {
            if q < hlen {
                if r != 0 || !keep {
                    return Err(what(format!("partial 100 response ({} of {} bytes): consumed {}, still awaiting = {}", q, hlen, r, keep)));
                }
            } else {
                if r != hlen || keep {
                    return Err(what(format!("complete 100 response: consumed {} (expected {}), still awaiting = {}", r, hlen, keep)));
                }
                consumed = r;
                decided = true;
            }
        } else {
            if r != 0 {
                return Err(what(format!("a non-100 response consumed {} bytes while awaiting 100", r)));
            }
            if q <= status_line_end && !keep {
                return Err(what(format!("input ending inside / right after the status line ({} bytes) already decided the handshake", q)));
            }
            if q >= hlen && keep {
                return Err(what("a complete non-100 response did not decide the handshake".into()));
            }
            if !keep {
                decided = true;
            }
        }
    }
    let refused = decided && c.hundred.is_none();
    let next = a.proceed().map_err(|e| what(format!("Await100::proceed: {:?}", e)))?;
    let (await_mode, rr, req_payload, chunked, path) = match next {
        Await100Result::RecvResponse(r) => {
            if !refused {
                return Err(what("advanced to RecvResponse although no non-100 response was seen".into()));
            }
            st.class("refusal_branch");
            (AwaitMode::Look, r, None, false, vec!["Prepare", "SendRequest", "Await100", "RecvResponse"])
        }
        Await100Result::SendBody(mut b) => {
            if refused {
                return Err(what("the server refused but the flow asks for the body".into()));
            }
            // send the body with an ample buffer
            let mut wire = vec![];
            let mut rest = &c.body[..];
            let mut guard = 0;
            while !b.can_proceed() {
                let (i, o) = b.write(rest, &mut out).map_err(|e| what(format!("body write: {:?}", e)))?;
                wire.extend_from_slice(&out[..o]);
                rest = &rest[i..];
                guard += 1;
                if guard > 8 {
                    return Err(what("body does not finish".into()));
                }
            }
            let chunked = c.req_framing != ReqFraming::Cl;
            let payload = if chunked {
                let mut d = StrictDechunk::new();
                d.feed(&wire).map_err(|e| what(format!("body on the wire invalid: {}", e)))?;
                d.data
            } else {
                wire
            };
            let rr = b.proceed().ok_or_else(|| what("finished body cannot advance".into()))?;
            // the 100 was either consumed while awaiting (Look) or is still in the stream (as if never looked)
            let mode = if consumed > 0 { AwaitMode::Look } else { AwaitMode::NeverLook };
            (mode, rr, Some(payload), chunked, vec!["Prepare", "SendRequest", "Await100", "SendBody", "RecvResponse"])
        }
    };
    let spec = spec_for(c, await_mode);
    let interim = spec.interim_len();
    let head_end = interim + c.resp.head.bytes().len();
    let body_end = head_end + c.resp.body_wire.len();
    let outcome = finish_response(&spec, rr, &stream, consumed, req_head, req_payload, chunked, path, s, interim, head_end, body_end).map_err(|e| what(e))?;
    let (obs, _term) = match outcome {
        Outcome::Done(o, t) => (o, t),
        Outcome::Premature(_) => return Err("harness: premature".into()),
        Outcome::NotCompared(why) => {
            st.class(why);
            return Ok(());
        }
    };
    check_against_truth(&spec, &obs, true, stream.len()).map_err(|e| what(e))?;
    if refused {
        if !obs.must_close {
            return Err(what("refusal did not mark the connection must-close".into()));
        }
        let conds = spec.close_conditions();
        if let Some(i) = obs.reason.and_then(classify) {
            if !conds[i] {
                return Err(what(format!("close reason {:?} names a condition that does not hold", obs.reason)));
            }
        }
    }
    if obs.late_100_skipped > 0 {
        st.class("late_100_skipped");
    }
    if (p > 0 && p < hlen) || refused || obs.late_100_skipped > 0 {
        st.nontrivial_sub(p as u64);
    }
    Ok(())
}

fn exec(t: &mut Tape, st: &mut Stats) -> Result<(), String> {
    let c = gen_case(t);
    st.case_digest = t.digest();
    st.describe(|| case_json(&c));
    let hlen = match &c.hundred {
        Some(h) => h.len(),
        None => c.resp.head.bytes().len(),
    };
    st.class(if c.hundred.is_some() { "server_sends_100" } else if c.resp.head.fields.is_empty() { "server_refuses_bare" } else { "server_refuses_with_fields" });
    // a refusal that brings a body: the caller's read may well reach past the head into the body bytes (one read of a small
    // response); such windows must decide the handshake exactly like the window that ends with the head
    let stream_len = spec_for(&c, AwaitMode::Look).stream().len();
    let mut ps: Vec<usize> = (0..=hlen).collect();
    if c.hundred.is_none() && stream_len > hlen {
        ps.extend((hlen + 1..=(hlen + 9).min(stream_len)).chain(std::iter::once(stream_len)));
        ps.dedup();
        st.class("window_past_the_refusal_head");
    }
    for p in ps {
        // how the window grows to p: 1..4 steps
        let nsteps = t.weighted(&[3, 2, 1, 1]) + 1;
        let mut steps: Vec<usize> = (0..nsteps - 1).map(|_| t.below(p + 1)).collect();
        steps.push(p);
        steps.sort_unstable();
        steps.dedup();
        if t.chance(12) {
            let mut s = Sched::from_tape(t);
            run_prefix(&c, p, &steps, &mut s, st)?;
            let moved = s.k1_moved;
            st.excluded(moved);
            st.class("later_path_scheduled");
        } else {
            run_prefix(&c, p, &steps, &mut Sched::canonical(), st)?;
        }
    }
    if st.wants_sample() && hlen < 80 {
        st.sample(case_json(&c));
    }
    Ok(())
}

pub static DEF: PropDef = PropDef {
    id: "C11",
    rule: "random cases: request {POST, PUT, PATCH, GET / DELETE with despite-method} x HTTP/1.0 / 1.1 x Connection x framing {chunked, \
Content-Length, explicit TE} x body 0..60 bytes, always Expect: 100-continue; server head = bare 100 (HTTP/1.0 / 1.1; reason none / \
empty / Continue / 60 bytes) followed by a final response, or any other status 101..599 (reason none / empty / short / 45..200 bytes) bare, with 1..4 fields, with a body \
(Content-Length / chunked / close-delimited). For EVERY look-prefix length p in 0..=|head| a fresh flow is driven into Await100, the window \
grows to p in 1..4 steps, then the caller proceeds (decided or giving up), and the exchange is run to Cleanup (12 % under a generated \
schedule). Oracle per window: partial 100 => Ok(0) and still awaiting; complete 100 => consumed exactly, then SendBody; other status: \
Ok(0) always, undecided up to and including the status line's CRLF, decided at the end of the head, never Err; refusal => RecvResponse \
whose response is that very status, body never sent, must-close with a reason naming a holding condition; giving up => SendBody; a \
100 not consumed while awaiting is skipped exactly once; every branch equals the ground truth (payload on the wire, response, verdict, \
bytes consumed). non-trivial = (case, p) with p strictly inside the head, or the refusal branch, or a late 100; distinct by (case digest, p).",
    assumptions: &[
        "try_read_100 is not called again once can_keep_await_100() is false",
        "between the status line and the end of a non-100 head either 'still awaiting' or 'refused' is accepted",
    ],
    exec,
    enums: &[],
    randoms: &[RandomDef {
        name: "handshakes",
        cases: |t: Tier| t.pick(30_000, 3_000_000),
        tape_len: 1_200,
        exec: None,
    }],
    extra: None,
};
