//! C19 — sending a body always makes progress when progress is possible.

use serde_json::json;

use crate::drive::sender::{pattern, with_out, Api, Kind, Sender};
use crate::infra::runner::{EnumDef, PropDef, RandomDef, Tier};
use crate::infra::stats::Stats;
use crate::infra::tape::Tape;
use crate::model::chunk::StrictDechunk;

/// One body write of `l` input bytes into an `n`-byte buffer on a fresh sender; returns consumed.
fn one_write(api: Api, kind: Kind, l: usize, n: usize) -> Result<usize, String> {
    let mut s = Sender::new(api, kind)?;
    let input = &pattern()[..l];
    with_out(n, |out| {
        let (c, p) = s
            .write(input, out)
            .map_err(|e| format!("write(in = {}, out = {}) failed: {:?}", l, n, e))?;
        if c > l || p > n {
            return Err(format!("counts out of range: consumed {} of {}, produced {} of {}", c, l, p, n));
        }
        if kind.is_chunked() {
            let mut d = StrictDechunk::new();
            d.feed(&out[..p])
                .map_err(|e| format!("in = {}, out = {}: output is not a valid chunk sequence: {}", l, n, e))?;
            if !d.at_boundary() {
                return Err(format!("in = {}, out = {}: output ends inside a chunk", l, n));
            }
            if d.terminated {
                return Err(format!("in = {}, out = {}: terminator emitted by a non-empty write", l, n));
            }
            if d.data[..] != input[..c] {
                return Err(format!("in = {}, out = {}: decoded data differs from the consumed input", l, n));
            }
        } else if p != c || out[..p] != input[..c] {
            return Err(format!("in = {}, out = {}: sized output differs from the consumed input", l, n));
        }
        Ok(c)
    })
}

fn ladder(n: usize, m: usize, wide: bool) -> Vec<usize> {
    let chunk = 10_240usize;
    let mut v: Vec<usize> = vec![1, 2, 3, 15, 16, 17, 2 * n, chunk - 1, chunk, chunk + 1, 2 * chunk, 2 * chunk + 1, 30_000];
    for d in 0..=10 {
        v.push((n + 1).saturating_sub(d));
    }
    v.extend([m.saturating_sub(1), m, m + 1]);
    if wide {
        v.extend([4 * chunk + 3, 66_000]);
    }
    v.retain(|x| *x >= 1);
    v.sort_unstable();
    v.dedup();
    v
}

fn check_n(api: Api, kind: Kind, n: usize, all_small: bool, st: &mut Stats) -> Result<(), String> {
    let chunked = kind.is_chunked();
    let min_room = if chunked { 6 } else { 1 };
    let m = if chunked {
        let mut s = Sender::new(Api::Flow, kind)?;
        s.max_input(n).unwrap()
    } else {
        n
    };
    let ls: Vec<usize> = if all_small { (1..=300).collect() } else { ladder(n, m, n > 11_000) };
    let mut prev: Option<(usize, usize)> = None;
    let mut at_m: Option<usize> = None;
    if m >= 1 {
        at_m = Some(one_write(api, kind, m, n)?);
        st.evals(1);
    }
    for l in ls {
        let c = one_write(api, kind, l, n)?;
        st.evals(1);
        if n >= min_room && c == 0 {
            return Err(format!(
                "no progress: {:?} write of {} bytes into a {}-byte buffer consumed 0",
                kind, l, n
            ));
        }
        // never less than had only the advertised maximum been offered
        if m >= 1 {
            let base = if l >= m { at_m.unwrap() } else { c };
            if c < base {
                return Err(format!(
                    "out = {}: offering {} bytes consumed {} but offering the advertised maximum {} consumes {}",
                    n, l, c, m, base
                ));
            }
        }
        if let Some((pl, pc)) = prev {
            if c < pc {
                return Err(format!(
                    "out = {}: more input, less progress: in = {} consumed {}, in = {} consumed {}",
                    n, pl, pc, l, c
                ));
            }
        }
        prev = Some((l, c));
        if chunked && ((l + 5 > n && n >= 21) || n == l + 5 || n == l + 6) {
            st.class("tight_pair");
            let fresh = st.nontrivial(((n as u64) << 24) ^ ((l as u64) << 2) ^ (api == Api::Call) as u64);
            if fresh && st.wants_sample() && n > 100 {
                st.sample(json!({"api": format!("{:?}", api), "out": n, "in": l, "consumed": c, "max_input": m}));
            }
        }
    }
    st.describe(|| json!({"api": format!("{:?}", api), "kind": format!("{:?}", kind), "out": n, "max_input": m}));
    Ok(())
}

fn kind_of(k: usize) -> Kind {
    match k {
        0 => Kind::DefaultChunked,
        1 => Kind::Sized(u64::MAX),
        2 => Kind::ExplicitTe,
        3 => Kind::ExplicitTeOtherCase(true),
        4 => Kind::TeAndCl(7),
        5 => Kind::TeTwoLinesAndCl(1000),
        6 => Kind::ViaAwait100 { saw_100: true },
        7 => Kind::ViaAwait100 { saw_100: false },
        8 => Kind::DefaultChunkedExtraHeadWrites,
        _ => Kind::TeOtherCaseAndCl(7, false),
    }
}

fn exec_grid(t: &mut Tape, st: &mut Stats) -> Result<(), String> {
    let api = if t.below(2) == 0 { Api::Flow } else { Api::Call };
    let kind = kind_of(t.below(2));
    let n = t.below(70_000);
    let min_room = if kind.is_chunked() { 6 } else { 1 };
    check_n(api, kind, n.max(min_room), false, st)
}

/// Stage 'large': buffers far beyond one chunk - around k full chunks (k up to 100) and around 2^15 .. 2^20 (2^21 thorough) -
/// with the same input ladder (incl. 2n, the advertised maximum and its neighbours): 16-bit or 32-bit narrowing of a chunk or
/// buffer length, and sizing that is only right for the first chunk of a write, show here and nowhere below 64 KiB.
fn large_n(tier: Tier, idx: u64) -> usize {
    let ks: &[u64] = if tier == Tier::Quick { &[1, 2, 3, 4, 5, 6, 7, 8, 20, 100] } else { &[1, 2, 3, 4, 5, 6, 7, 8, 9, 10, 11, 12, 13, 20, 31, 50, 64, 100, 150, 200] };
    let around_chunks = ks.len() as u64 * 28;
    if idx < around_chunks {
        let k = ks[(idx / 28) as usize];
        return (k * 10_248 + idx % 28) as usize - 3;
    }
    let j = idx - around_chunks;
    let p = 15 + j / 25;
    ((1u64 << p) + j % 25) as usize - 8
}

fn large_count(tier: Tier) -> u64 {
    match tier {
        Tier::Quick => 10 * 28 + 6 * 25,
        Tier::Thorough => 20 * 28 + 7 * 25,
    }
}

fn exec_large(t: &mut Tape, st: &mut Stats) -> Result<(), String> {
    let api = if t.below(2) == 0 { Api::Flow } else { Api::Call };
    let kind = if t.below(4) == 3 { Kind::Sized(u64::MAX) } else { Kind::DefaultChunked };
    let n = t.below(1 << 22);
    st.class("large_buffer");
    check_n(api, kind, n.max(6), false, st)
}

fn exec_small(t: &mut Tape, st: &mut Stats) -> Result<(), String> {
    let api = if t.below(2) == 0 { Api::Flow } else { Api::Call };
    let n = t.below(301).max(6);
    check_n(api, Kind::DefaultChunked, n, true, st)
}

/// Whole-body loop with a fixed buffer size: must terminate within |body| iterations.
fn exec_loop(t: &mut Tape, st: &mut Stats) -> Result<(), String> {
    const BUFS: [usize; 12] = [6, 7, 8, 16, 21, 22, 23, 261, 4101, 10_253, 10_254, 20_500];
    let api = if t.below(2) == 0 { Api::Flow } else { Api::Call };
    let kind = kind_of(t.below(10));
    let api = if kind.flow_only() { Api::Flow } else { api };
    let n = match t.weighted(&[3, 1]) {
        0 => *t.pick(&BUFS),
        _ => t.range(6, 12_000),
    };
    let body_len = match t.weighted(&[2, 2, 1]) {
        0 => t.range(1, 300),
        1 => t.range(300, 12_000),
        _ => t.range(12_000, 40_000),
    };
    let body = &pattern()[100..100 + body_len];
    let mut s = Sender::new(api, kind)?;
    let mut d = StrictDechunk::new();
    let mut raw: Vec<u8> = Vec::new();
    let mut rest = body;
    let mut iters = 0usize;
    while !rest.is_empty() {
        iters += 1;
        if iters > body_len {
            return Err(format!(
                "send loop did not terminate: {:?} body of {} with a {}-byte buffer, {} bytes left after {} writes",
                kind,
                body_len,
                n,
                rest.len(),
                iters - 1
            ));
        }
        let c = with_out(n, |out| -> Result<usize, String> {
            let (c, p) = s
                .write(rest, out)
                .map_err(|e| format!("loop write failed: {:?}", e))?;
            if kind.is_chunked() {
                d.feed(&out[..p]).map_err(|e| format!("loop output invalid: {}", e))?;
            } else {
                raw.extend_from_slice(&out[..p]);
            }
            Ok(c)
        })?;
        st.evals(1);
        if c == 0 {
            return Err(format!(
                "send loop spins: {:?} write of {} bytes into a {}-byte buffer consumed 0 (body {} bytes, {} sent)",
                kind,
                rest.len(),
                n,
                body_len,
                body_len - rest.len()
            ));
        }
        rest = &rest[c..];
    }
    if kind.is_chunked() {
        if d.data[..] != body[..] {
            return Err("looped body decodes to something else than the input".into());
        }
    } else if raw[..] != body[..] {
        return Err("looped sized body differs from the input".into());
    }
    st.class("loop");
    if iters >= 2 {
        st.nontrivial(t.digest());
    }
    st.describe(|| json!({"api": format!("{:?}", api), "kind": format!("{:?}", kind), "buffer": n, "body": body_len, "writes": iters}));
    Ok(())
}

/// Stage 'histories': progress must not depend on what happened before on the same body - earlier writes of other
/// sizes, buffers that shrink, calculate_max_input() asked about another size. Every write is compared with the same
/// write on a fresh sender.
fn exec_history(t: &mut Tape, st: &mut Stats) -> Result<(), String> {
    let api = if t.below(2) == 0 { Api::Flow } else { Api::Call };
    let kind = match t.weighted(&[3, 1, 1, 2, 1, 1, 1, 1, 1, 1]) {
        0 => Kind::DefaultChunked,
        1 => Kind::ExplicitTe,
        2 => Kind::DefaultChunkedHttp10,
        3 => Kind::Sized(1_000_000),
        4 => Kind::ExplicitTeOtherCase(false),
        5 => Kind::TeAndCl(5),
        6 => Kind::TeTwoLinesAndCl(1000),
        7 => Kind::ViaAwait100 { saw_100: true },
        8 => Kind::ViaAwait100 { saw_100: false },
        _ => Kind::DespiteChunkedHeaderFirst,
    };
    let api = if kind.flow_only() { Api::Flow } else { api };
    let mut s = Sender::new(api, kind)?;
    let nsteps = t.range(2, 10);
    if let Kind::Sized(total) = kind {
        // length-delimited: refused operations in between (an overshooting write, an overshooting direct-write report) must not
        // cost the following legal writes their progress
        let mut left = total as usize;
        let mut desc = vec![];
        for i in 0..nsteps {
            match t.weighted(&[4, 1, 1]) {
                0 => {
                    let out = match t.weighted(&[2, 2, 1]) {
                        0 => t.range(1, 8),
                        1 => t.range(9, 600),
                        _ => t.range(600, 20_000),
                    };
                    let input_len = t.range(1, 20_000.min(left));
                    let input = &pattern()[300..300 + input_len];
                    let (c, _) = with_out(out, |o| s.write(input, o)).map_err(|e| format!("step {}: legal write(in = {}, out = {}) with {} left failed: {:?}; history {:?}", i, input_len, out, left, e, desc))?;
                    st.evals(1);
                    let want = input_len.min(out);
                    if c != want {
                        return Err(format!("step {}: write(in = {}, out = {}) consumed {} instead of {}; history {:?}", i, input_len, out, c, want, desc));
                    }
                    left -= c;
                    desc.push(json!({"write": [input_len, out], "consumed": c}));
                }
                1 => {
                    if let Some(r) = s.direct(left + 1 + t.below(100)) {
                        if r.is_ok() {
                            return Err(format!("step {}: overshooting direct-write report accepted; history {:?}", i, desc));
                        }
                        desc.push(json!("refused direct report"));
                    }
                }
                _ => {
                    let n = left + 1;
                    let r = if n <= pattern().len() { with_out(64, |o| s.write(&pattern()[..n], o)) } else { Ok((0, 0)) };
                    if n <= pattern().len() && r.is_ok() {
                        return Err(format!("step {}: overshooting write accepted; history {:?}", i, desc));
                    }
                    desc.push(json!("refused overshooting write"));
                }
            }
        }
        st.describe(|| json!({"api": format!("{:?}", api), "kind": "Sized(1000000)", "steps": desc}));
        st.class("history_sized");
        st.nontrivial(t.digest());
        return Ok(());
    }
    let mut off = 0usize;
    let mut desc = vec![];
    // what was done to this body so far: (asked about, failed finishing attempt with, (input offset, input length, buffer)) -
    // replayed on a twin to learn what the advertised maximum for the next buffer is *after this history*
    let mut ops: Vec<(Option<usize>, Option<usize>, (usize, usize, usize))> = vec![];
    for i in 0..nsteps {
        let out = match t.weighted(&[3, 2, 2, 2]) {
            0 => t.range(6, 12),
            1 => *t.pick(&[21usize, 22, 261, 262, 4101, 4102, 4103, 4104, 10_253, 10_254]),
            2 => t.range(13, 600),
            _ => t.range(600, 12_000),
        };
        let input_len = match t.weighted(&[3, 2, 2, 1]) {
            0 => t.range(1, 40),
            1 => out.saturating_sub(t.below(12)).max(1),
            2 => *t.pick(&[16usize, 256, 4096, 8192, 10_240]) + t.below(3),
            _ => t.range(1, 20_000),
        };
        // sometimes the caller asks about a buffer size first - the same one, or another one
        let asked = if t.chance(35) {
            let k = if t.bool() { out } else { *t.pick(&[64usize, 512, 1024, 4096, 16_384]) };
            let _ = s.max_input(k);
            Some(k)
        } else {
            None
        };
        // sometimes the caller first tries to end the body with a buffer that cannot hold the terminator (0..4 bytes): nothing is
        // emitted, the body is not finished, and the writes that follow must make progress as before
        let mut failed_finish = None;
        if t.chance(12) {
            let small = t.below(5);
            failed_finish = Some(small);
            let (c, p) = with_out(small, |o| s.write(&[], o)).map_err(|e| format!("step {}: finishing write into {} bytes failed: {:?}", i, small, e))?;
            if (c, p) != (0, 0) || s.finished() {
                return Err(format!("step {}: finishing write into {} bytes reported ({}, {}), finished = {}", i, small, c, p, s.finished()));
            }
            desc.push(json!({"failed_finish_attempt_with_buffer": small}));
            st.class("failed_finish_attempt_in_history");
        }
        let input = &pattern()[200 + off..200 + off + input_len];
        // the advertised maximum for this buffer after this history, asked on a twin body that went through the same calls
        // (asking this body is itself part of some histories; a fresh body's answer need not be this body's), and what the twin
        // consumes when only that much is offered
        let (m, c_twin) = {
            let mut twin = Sender::new(Api::Flow, kind)?;
            for (a, f, (o, l, b)) in &ops {
                if let Some(k) = a {
                    let _ = twin.max_input(*k);
                }
                if let Some(small) = f {
                    let _ = with_out(*small, |x| twin.write(&[], x));
                }
                let _ = with_out(*b, |x| twin.write(&pattern()[200 + o..200 + o + l], x));
            }
            if let Some(k) = asked {
                let _ = twin.max_input(k);
            }
            if let Some(small) = failed_finish {
                let _ = with_out(small, |x| twin.write(&[], x));
            }
            let m = twin.max_input(out).unwrap_or(0);
            let offer = m.min(input_len);
            let c_twin = if offer == 0 { 0 } else { with_out(out, |x| twin.write(&input[..offer], x)).map(|r| r.0).unwrap_or(0) };
            (m, c_twin)
        };
        ops.push((asked, failed_finish, (off, input_len, out)));
        let (c, p) = with_out(out, |o| s.write(input, o)).map_err(|e| format!("step {}: write(in = {}, out = {}) failed: {:?}", i, input_len, out, e))?;
        st.evals(1);
        desc.push(json!({"asked_max_input_for": asked, "in": input_len, "out": out, "consumed": c}));
        if c == 0 {
            return Err(format!("step {} of a history: write of {} bytes into a {}-byte buffer consumed 0 (produced {}); history so far {:?}", i, input_len, out, p, desc));
        }
        // never less than had only the advertised maximum been offered (which is consumed completely: C18)
        if input_len >= m && c < m {
            // the advertised maximum is consumed completely when offered alone (C18), so offering at least that much consumes no less
            return Err(format!("step {} of a history: write of {} bytes into a {}-byte buffer consumed {} but the advertised maximum {} (asked after the same history) fits; history so far {:?}", i, input_len, out, c, m, desc));
        }
        if input_len >= m && c < c_twin {
            return Err(format!("step {} of a history: write of {} bytes into a {}-byte buffer consumed {} but offering only the advertised maximum {} consumes {}; history so far {:?}", i, input_len, out, c, m, c_twin, desc));
        }
        off += c;
    }
    st.describe(|| json!({"api": format!("{:?}", api), "kind": format!("{:?}", kind), "steps": desc}));
    st.class("history");
    st.nontrivial(t.digest());
    Ok(())
}

const GRID_Q: u64 = 11_000 - 6 + 1;

fn grid_n(tier: Tier, i: u64) -> u32 {
    // quick: every n in 6..=11000; thorough: additionally 11001..=66000 in steps of 7 and around chunk multiples
    if i < GRID_Q {
        return (6 + i) as u32;
    }
    let j = i - GRID_Q;
    let _ = tier;
    (11_001 + j * 7) as u32
}

pub static DEF: PropDef = PropDef {
    id: "C19",
    rule: "enumeration 'grid': every output length n in 6..=11000 (thorough: up to 66000 in steps of 7) x \
{Flow, Call} x {chunked, length-delimited}; for each n a ladder of input lengths {1,2,3,15..17,n-9..n+1,2n,m-1,m,m+1,\
chunk-1,chunk,chunk+1,2chunk,2chunk+1,30000} is offered to fresh senders: consumed >= 1, consumed(L) >= \
consumed(min(L, m)) with m = calculate_max_input(n), consumed non-decreasing along the ladder, output strictly \
decodes to the consumed prefix. enumeration 'small' (thorough): all L <= 300 for all n <= 300. enumeration 'large': outputs around k full chunks (k up to 100; thorough 200) and around 2^15..2^20 (2^21), same ladder incl. 2n. random 'loops': \
whole-body send loops with a fixed buffer must terminate within |body| writes and decode to the body. \
random 'histories': 2..10 writes on one body with buffers that grow and shrink (6..12, hex-digit boundaries, up to 12000), inputs \
around the buffer size and around 16 / 256 / 4096 / 8192 / 10240, calculate_max_input() asked about the same or another size and failed finishing attempts (buffer 0..4) in \
between, seven body kinds incl. Transfer-Encoding in another case / on two lines / next to a Content-Length: each write consumes >= 1, and - when at least the advertised maximum for its buffer was offered - no less than that maximum and no less than a twin body consumes that went through the same history and is offered exactly its advertised maximum (the maximum is asked of the twin); length-delimited histories interleave refused \
operations (overshooting write, overshooting direct-write report), after which legal writes must still consume min(in, out). non-trivial = chunked pair with L > n-5 and n >= 21, or n-5-L in {0,1}; distinct by (n, L, api); loops with >= 2 writes.",
    assumptions: &[
        "a fresh sender per (L, n) pair, so pairs are independent",
        "the smallest chunk needs 6 bytes (1 size digit + CRLF + 1 data byte + CRLF), as the property states",
    ],
    exec: exec_grid,
    enums: &[
        EnumDef {
            name: "grid",
            count: |t: Tier| 4 * t.pick(GRID_Q, GRID_Q + (66_000 - 11_001) / 7 + 1),
            tape: |tier, idx| vec![(idx % 2) as u32, ((idx / 2) % 2) as u32, grid_n(tier, idx / 4)],
            exhaustive: true,
            exec: None,
        },
        EnumDef {
            name: "large",
            count: |t: Tier| 2 * 4 * large_count(t),
            tape: |tier, idx| vec![(idx % 2) as u32, ((idx / 2) % 4) as u32, large_n(tier, idx / 8) as u32],
            exhaustive: true,
            exec: Some(exec_large),
        },
        EnumDef {
            name: "small",
            count: |t: Tier| t.pick(2 * 40, 2 * 301),
            tape: |_, idx| vec![(idx % 2) as u32, (idx / 2) as u32],
            exhaustive: true,
            exec: Some(exec_small),
        },
    ],
    randoms: &[
        RandomDef {
            name: "loops",
            cases: |t: Tier| t.pick(150_000, 6_000_000),
            tape_len: 12,
            exec: Some(exec_loop),
        },
        RandomDef {
            name: "histories",
            cases: |t: Tier| t.pick(400_000, 6_000_000),
            tape_len: 70,
            exec: Some(exec_history),
        },
    ],
    extra: None,
};
