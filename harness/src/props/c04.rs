//! C04 — Content-Length request body is forwarded verbatim and never exceeds the length.

use serde_json::{json, Value};

use crate::drive::sender::{pattern, with_out, Api, Kind, Sender};
use crate::infra::runner::{EnumDef, PropDef, RandomDef, Tier};
use crate::infra::stats::Stats;
use crate::infra::tape::Tape;

#[derive(Clone, Copy, Debug)]
enum Op {
    Write { input: usize, out: usize },
    Direct(usize),
    /// read-only accessors in the middle of the body: is_chunked, calculate_max_input(k), can_proceed
    Query(usize),
}

struct Hist {
    api: Api,
    n: u64,
    ops: Vec<Op>,
}

fn hist_json(h: &Hist) -> Value {
    json!({
        "api": format!("{:?}", h.api),
        "content_length": h.n,
        "ops": h.ops.iter().map(|o| match o {
            Op::Write { input, out } => json!({"write": [input, out]}),
            Op::Direct(a) => json!({"direct": a}),
            Op::Query(k) => json!({"query_max_input": k}),
        }).collect::<Vec<_>>(),
    })
}

fn run_history(h: &Hist, st: &mut Stats) -> Result<(), String> {
    // every other history carries an explicit Host header as well (then the library has nothing to amend)
    // on the Flow API the body state is also reached through Await100 (interim 100 seen or not) and on a bodiless method whose
    // Content-Length was added with Flow::header() before / after send_body_despite_method()
    let variant = (h.ops.len() + (h.n % 7) as usize) % 9;
    let kind = match (h.api, variant) {
        (Api::Flow, 2) => Kind::SizedViaAwait100(h.n, true),
        (Api::Flow, 3) => Kind::SizedViaAwait100(h.n, false),
        (Api::Flow, 4) => Kind::DespiteSized(h.n, true),
        (Api::Flow, 5) => Kind::DespiteSized(h.n, false),
        (Api::Flow, 8) => Kind::SizedExtraHeadWrites(h.n),
        (_, v) if v % 2 == 0 => Kind::Sized(h.n),
        _ => Kind::SizedAndHost(h.n),
    };
    st.class(match kind {
        Kind::SizedViaAwait100(..) => "body_state_via_await_100",
        Kind::DespiteSized(..) => "despite_method_with_added_content_length",
        _ => "plain_sized_request",
    });
    let mut s = match Sender::new(h.api, kind) {
        Ok(s) => s,
        Err(e) if e == crate::drive::sender::NO_BODY_STATE => {
            // a flow that has no body state for a zero-length body: nothing to write, nothing to finish
            st.class("zero_length_body_without_body_state");
            return Ok(());
        }
        Err(e) => return Err(e),
    };
    if s.is_chunked() == Some(true) {
        return Err("content-length body reported as chunked".into());
    }
    // reference model
    let mut left: u64 = h.n;
    let mut must_be_finished = false;
    let mut off = 0usize; // offset into the pattern (wraps for very large totals; content is still compared)
    let mut transfers = 0u32;
    let mut refused = 0u32;
    let mut calls = 0u64;
    let base = 5usize;
    for (i, op) in h.ops.iter().enumerate() {
        calls += 1;
        match *op {
            Op::Write { input, out } => {
                let src = &pattern()[base + off..base + off + input];
                let res = with_out(out, |o| s.write(src, o).map(|(c, p)| (c, p, o[..p.min(o.len())].to_vec())));
                let at = |m: String| format!("op #{} write(in = {}, out = {}) with {} left: {}", i, input, out, left, m);
                if input as u64 > left {
                    match res {
                        Err(_) => {
                            refused += 1;
                            st.class("overshoot_refused");
                        }
                        Ok((c, p, _)) => {
                            return Err(at(format!(
                                "offering more than the remaining length was accepted (consumed {}, produced {})",
                                c, p
                            )))
                        }
                    }
                } else {
                    match res {
                        Err(e) => return Err(at(format!("a permitted write was refused: {:?}", e))),
                        Ok((c, p, bytes)) => {
                            let k = input.min(out).min(left.min(usize::MAX as u64) as usize);
                            if c != k || p != k {
                                return Err(at(format!(
                                    "expected ({k}, {k}) = min(input, space, remaining), got ({c}, {p})"
                                )));
                            }
                            if bytes[..] != src[..k] {
                                return Err(at("output differs from the input prefix".into()));
                            }
                            left -= k as u64;
                            off = (off + k) % 200_000;
                            if k > 0 {
                                transfers += 1;
                            }
                            if left == 0 {
                                must_be_finished = true;
                            }
                        }
                    }
                }
            }
            Op::Query(k) => {
                if let Some(c) = s.is_chunked() {
                    if c {
                        return Err(format!("op #{}: content-length body reports is_chunked() = true", i));
                    }
                }
                if let Some(m) = s.max_input(k) {
                    if m != k {
                        return Err(format!("op #{}: calculate_max_input({}) = {} on a length-delimited body", i, k, m));
                    }
                }
                st.class("accessor_mid_body");
            }
            Op::Direct(a) => {
                let res = match s.direct(a) {
                    Some(r) => r,
                    None => continue,
                };
                let at = |m: String| format!("op #{} consume_direct_write({}) with {} left: {}", i, a, left, m);
                if a as u64 > left {
                    if res.is_ok() {
                        return Err(at("a direct-write report beyond the remaining length was accepted".into()));
                    }
                    refused += 1;
                    st.class("direct_overshoot_refused");
                } else {
                    if let Err(e) = res {
                        return Err(at(format!("a permitted direct-write report was refused: {:?}", e)));
                    }
                    left -= a as u64;
                    if a > 0 {
                        transfers += 1;
                    }
                    if left == 0 {
                        must_be_finished = true;
                    }
                }
            }
        }
        let fin = s.finished();
        if fin && left != 0 {
            return Err(format!(
                "after op #{} {:?}: body reported finished with {} of {} bytes still unaccounted",
                i, op, left, h.n
            ));
        }
        if must_be_finished && !fin {
            // "... which always becomes true once N is reached and the caller signals the end": reaching N need not finish the body
            // by itself (a report of bytes written elsewhere is bookkeeping); the documented end signal - an empty write, which
            // needs no output space - must
            st.class("end_signal_needed_after_reaching_n");
            let r = with_out(0, |o| s.write(&[], o));
            match r {
                Ok((0, 0)) => {}
                other => return Err(format!("after op #{} {:?}: the end signal (empty write) with all {} bytes accounted for returned {:?}", i, op, h.n, other)),
            }
            if !s.finished() {
                return Err(format!(
                    "after op #{} {:?}: all {} bytes accounted for and end signalled, but the body is not reported finished",
                    i, op, h.n
                ));
            }
        }
    }
    st.evals(calls.max(1));
    let fin = s.finished();
    let adv = s.advance_ok();
    if adv != fin {
        return Err(format!("advancing = {} but finished = {} ({} left)", adv, fin, left));
    }
    if transfers >= 2 && refused >= 1 && left == 0 {
        st.nontrivial(st.case_digest);
        if st.wants_sample() && h.ops.len() <= 8 {
            st.sample(hist_json(h));
        }
    }
    if left == 0 {
        st.class("reached_zero");
    }
    st.describe(|| hist_json(h));
    Ok(())
}

fn exec_random(t: &mut Tape, st: &mut Stats) -> Result<(), String> {
    let api = if t.below(2) == 0 { Api::Flow } else { Api::Call };
    let n: u64 = match t.weighted(&[4, 2, 3, 1]) {
        0 => t.range(0, 40) as u64,
        1 => t.range(41, 2_000) as u64,
        2 => {
            const B: [u64; 9] = [255, 256, 4_096, 10_240, 16_384, 65_535, 65_536, 69_999, 70_000];
            (*t.pick(&B) + t.below(5) as u64).saturating_sub(2)
        }
        _ => *t.pick(&[1u64 << 32, (1u64 << 32) + 5, 1u64 << 63, u64::MAX - 1, u64::MAX]),
    };
    let nops = t.range(1, 40);
    let mut ops = Vec::with_capacity(nops);
    // the generator tracks the remaining length itself so that it can aim at the boundaries
    let mut left = n;
    for _ in 0..nops {
        let cap = left.min(70_000) as usize;
        let input = match t.weighted(&[3, 2, 2, 2, 1, 1]) {
            0 => t.range(0, cap.min(40)),
            1 => cap,                    // exactly the remainder
            2 => cap.saturating_add(1).min(70_001), // overshoot by one (when left <= 70000)
            3 => cap.saturating_sub(1),
            4 => 0,
            _ => t.range(0, cap),
        };
        let is_direct = api == Api::Flow && t.chance(25);
        if api == Api::Flow && t.chance(12) {
            ops.push(Op::Query(t.below(5000)));
        }
        if is_direct {
            ops.push(Op::Direct(input));
            if input as u64 <= left {
                left -= input as u64;
            }
        } else {
            let out = match t.weighted(&[3, 2, 2, 1, 1]) {
                0 => input + t.below(3),
                1 => t.below(13),
                2 => input.saturating_sub(t.range(1, 3)),
                3 => 0,
                _ => 70_016,
            };
            ops.push(Op::Write { input, out });
            if input as u64 <= left {
                left -= input.min(out) as u64;
            }
        }
    }
    st.case_digest = t.digest();
    let h = Hist { api, n, ops };
    run_history(&h, st)
}

/// Small-scope exhaustive: N in 0..=4, histories of 3 ops over a menu of 12 ops.
fn exec_small(t: &mut Tape, st: &mut Stats) -> Result<(), String> {
    const MENU: [Op; 12] = [
        Op::Write { input: 0, out: 0 },
        Op::Write { input: 0, out: 4 },
        Op::Write { input: 1, out: 0 },
        Op::Write { input: 1, out: 4 },
        Op::Write { input: 2, out: 1 },
        Op::Write { input: 2, out: 4 },
        Op::Write { input: 3, out: 4 },
        Op::Write { input: 5, out: 8 },
        Op::Direct(0),
        Op::Direct(1),
        Op::Direct(2),
        Op::Direct(5),
    ];
    let api = if t.below(2) == 0 { Api::Flow } else { Api::Call };
    let n = t.below(5) as u64;
    let ops = (0..4).map(|_| MENU[t.below(12)]).collect();
    st.case_digest = t.digest();
    run_history(&Hist { api, n, ops }, st)
}

pub static DEF: PropDef = PropDef {
    id: "C04",
    rule: "random: Content-Length N in {0..40, 41..2000, around 255/256/4096/10240/16384/65535/65536/70000, 2^32, 2^32+5, \
2^63, u64::MAX-1, u64::MAX} x histories of 1..40 ops {write(input, out), consume_direct_write(amount), read-only accessors (is_chunked, calculate_max_input, can_proceed)} with inputs aimed at \
{0, remaining-1, remaining, remaining+1, random} and buffers {input..input+2, 0..12, smaller than input, 0, large}, on \
Flow<SendBody> and Call<WithBody>; a reference counter decides each result: overshoot => Err and no change, otherwise \
(k,k) with k = min(input, space, remaining) and output == input prefix; finished only if remaining == 0, and finished once \
remaining == 0 after a successful op; advancing <=> finished. enumeration 'small': N in 0..=4 x all 4-op histories over a \
12-op menu x both APIs. non-trivial = >= 2 successful transfers, >= 1 refused op, remaining reaches 0; distinct by \
decoded-choice digest.",
    assumptions: &[
        "for N = 0 the finished flag before any op is unconstrained (the statement requires it only after an end signal)",
        "direct-write reports exist on the Flow API only",
    ],
    exec: exec_random,
    enums: &[EnumDef {
        name: "small",
        count: |_t: Tier| 2 * 5 * 12 * 12 * 12 * 12,
        tape: |_, idx| crate::infra::runner::radix(idx, &[2, 5, 12, 12, 12, 12]),
        exhaustive: true,
        exec: Some(exec_small),
    }],
    randoms: &[RandomDef {
        name: "histories",
        cases: |t: Tier| t.pick(2_000_000, 80_000_000),
        tape_len: 170,
        exec: None,
    }],
    extra: None,
};
