//! Shared machinery of C02 (request head well-formed and faithful) and C16 (caller-added headers reach
//! the wire): case generator, effective-request model, strict round trip, per-call line rules.

use serde_json::{json, Value};
use ureq_proto::client::call::Call;
use ureq_proto::client::flow::state::{Prepare, SendRequest};
use ureq_proto::client::flow::{Flow, RedirectAuthHeaders};
use ureq_proto::http::{HeaderValue, Method};
use ureq_proto::Error;

use crate::drive::recv::{needs_body, METHODS};
use crate::drive::redirect::{after_head, exchange, send_body, AfterHead, Terminal};
use crate::drive::sender::pattern;
use crate::infra::stats::Stats;
use crate::infra::tape::Tape;
use crate::model::chunk::StrictDechunk;
use crate::model::head::{gen_value, parse_request_head, ReqHead};
use crate::model::request::{gen_plain_header, gen_uri_parts, ReqSpec};

#[derive(Clone, Copy, Debug, PartialEq, Eq)]
pub enum ApiSel {
    Flow,
    Call,
}

#[derive(Clone, Copy, Debug, PartialEq, Eq)]
pub enum Framing {
    /// nothing supplied by the caller
    Auto,
    OrigCl(usize),
    OrigTe,
    AddedCl(usize),
    AddedTe,
}

#[derive(Clone, Debug)]
pub struct Hop {
    pub status: u16,
    pub scheme: &'static str,
    pub host: String,
    pub port: Option<u16>,
    pub path: String,
    pub query: Option<String>,
    pub same_host_policy: bool,
    pub resp_body: bool,
}

impl Hop {
    fn location(&self) -> String {
        let mut s = format!("{}://{}", self.scheme, self.host);
        if let Some(p) = self.port {
            s.push_str(&format!(":{}", p));
        }
        s.push_str(&self.path);
        if let Some(q) = &self.query {
            s.push('?');
            s.push_str(q);
        }
        s
    }
    fn target(&self) -> String {
        let mut s = if self.path.is_empty() { "/".to_string() } else { self.path.clone() };
        if let Some(q) = &self.query {
            s.push('?');
            s.push_str(q);
        }
        s
    }
}

#[derive(Clone, Debug)]
pub struct HeadCase {
    pub api: ApiSel,
    pub spec: ReqSpec,
    pub hops: Vec<Hop>,
    /// headers added in the Prepare state of the final flow, in order
    pub added: Vec<(String, Vec<u8>)>,
    pub despite: bool,
    pub framing: Framing,
}

pub fn case_json(c: &HeadCase) -> Value {
    json!({
        "api": format!("{:?}", c.api),
        "method": c.spec.method.as_str(),
        "version": if c.spec.v10 { "1.0" } else { "1.1" },
        "uri": c.spec.uri_string(),
        "original_headers": c.spec.orig.iter().map(|(k, v)| format!("{}: {}", k, String::from_utf8_lossy(v))).collect::<Vec<_>>(),
        "hops": c.hops.iter().map(|h| json!({"status": h.status, "location": h.location(), "same_host_policy": h.same_host_policy, "resp_body": h.resp_body})).collect::<Vec<_>>(),
        "added_headers": c.added.iter().map(|(k, v)| format!("{}: {}", k, String::from_utf8_lossy(v))).collect::<Vec<_>>(),
        "despite": c.despite,
        "framing": format!("{:?}", c.framing),
    })
}

/// What the model says about the request the final flow must emit.
pub struct Effective {
    pub method: Method,
    pub target: String,
    pub uri_host: String,
    pub inherited: Vec<(String, Vec<u8>)>,
    pub body_follows: bool,
    pub orig_body: bool,
    /// after a redirect that stays on the original host an inherited explicit Host may be kept or replaced by the derived one
    pub inherited_host_optional: bool,
}

fn method_after(m: &Method, status: u16) -> Method {
    if status == 307 || status == 308 {
        m.clone()
    } else if *m == Method::HEAD {
        Method::HEAD
    } else {
        Method::GET
    }
}

pub fn effective(c: &HeadCase) -> Effective {
    let mut method = c.spec.method.clone();
    let mut target = c.spec.target();
    let mut uri_host = c.spec.host.clone();
    let mut inherited = c.spec.orig.clone();
    let orig_body = needs_body(&c.spec.method);
    let mut inherited_host_optional = false;
    for h in &c.hops {
        method = method_after(&method, h.status);
        target = h.target();
        uri_host = h.host.clone();
        let keep_auth = h.same_host_policy && h.host == c.spec.host && (h.scheme == c.spec.scheme || h.scheme == "https");
        // suppression is evaluated per hop against the *original* header set
        inherited = c
            .spec
            .orig
            .iter()
            .filter(|(k, _)| {
                let k = k.to_ascii_lowercase();
                // an explicit Host of the original request was written for the original host: it does not travel to another
                // one (C14: the followed request's Host names the target's host)
                let foreign_host = k == "host" && !h.host.eq_ignore_ascii_case(&c.spec.host);
                !(k == "cookie" || k == "content-length" || (k == "authorization" && !keep_auth) || foreign_host)
            })
            .cloned()
            .collect();
        inherited_host_optional = true;
    }
    let body_follows = needs_body(&method) || c.despite;
    Effective { method, target, uri_host, inherited, body_follows, orig_body, inherited_host_optional }
}

// ---------------------------------------------------------------------------------------------
// generator

fn gen_special_value(t: &mut Tape, name: &str) -> Vec<u8> {
    match name {
        "connection" => t.pick(&["close", "keep-alive"]).as_bytes().to_vec(),
        "expect" => b"100-continue".to_vec(),
        _ => gen_value(t, 30, false, true),
    }
}

/// Header values are mostly short; now and then long (beyond any plausible scratch size), rarely very long.
fn gen_long_value(t: &mut Tape, obs: bool) -> Option<Vec<u8>> {
    let n = match t.weighted(&[94, 4, 1, 1]) {
        0 => return None,
        1 => t.range(240, 700),
        2 => t.range(1_000, 5_000),
        _ => *t.pick(&[16_384usize, 40_000]),
    };
    let mut v = gen_value(t, 24, false, obs);
    while v.len() < n {
        v.push(b"abcdefghijklmnopqrstuvwxyz0123456789-_.~"[v.len() % 40]);
    }
    Some(v)
}

pub fn gen_case(t: &mut Tape, c16: bool) -> HeadCase {
    let (scheme, host, port, path, query) = gen_uri_parts(t);
    let v10 = t.chance(25);
    let depth = if c16 { t.weighted(&[2, 4, 3, 2]) } else { t.weighted(&[5, 2, 1, 1]) };
    let api = if depth == 0 && !c16 && t.chance(25) { ApiSel::Call } else { ApiSel::Flow };
    let method = if v10 { [Method::GET, Method::HEAD, Method::POST][t.below(3)].clone() } else { METHODS[t.below(9)].clone() };
    let takes_body = needs_body(&method);

    // hops: statuses that are followed for the method at that point
    let mut hops = vec![];
    let mut m = method.clone();
    for _ in 0..depth {
        let retaining_ok = !needs_body(&m) && m != Method::DELETE;
        let status = if retaining_ok && t.chance(30) { *t.pick(&[307u16, 308]) } else { *t.pick(&[301u16, 302, 303, 300, 305, 399]) };
        let (mut hs, mut hh, hp, hpath, hq) = gen_uri_parts(t);
        // often stay on (or return to) the original host so that the credential rule matters
        if t.chance(50) {
            hh = host.clone();
            if t.chance(70) {
                hs = scheme;
            }
        }
        hops.push(Hop { status, scheme: hs, host: hh, port: hp, path: hpath, query: hq, same_host_policy: t.bool(), resp_body: t.chance(30) });
        m = method_after(&m, status);
    }
    let final_takes_body = needs_body(&m);
    let despite = api == ApiSel::Flow && !final_takes_body && t.chance(if c16 { 35 } else { 20 });
    let final_body = final_takes_body || despite;

    // original headers
    let n_orig = match t.weighted(&[5, 3, 1]) {
        0 => t.range(0, 5),
        1 => t.range(6, 20),
        _ => t.range(21, 60),
    };
    let obs = t.chance(30);
    let mut orig: Vec<(String, Vec<u8>)> = vec![];
    for _ in 0..n_orig {
        let h = gen_plain_header(t, &orig, obs);
        orig.push(h);
    }
    // a long value now and then (the last header more often than not: it is the line the final empty line travels with)
    if !orig.is_empty() {
        if let Some(v) = gen_long_value(t, obs) {
            let i = if t.bool() { orig.len() - 1 } else { t.below(orig.len()) };
            orig[i].1 = v;
        }
    }
    let insert_orig = |t: &mut Tape, orig: &mut Vec<(String, Vec<u8>)>, k: &str, v: Vec<u8>| {
        let name = if t.chance(30) { k.to_ascii_uppercase() } else { k.to_string() };
        let i = t.below(orig.len() + 1);
        orig.insert(i, (name, v));
    };
    if t.chance(40) {
        let v = gen_special_value(t, "cookie");
        insert_orig(t, &mut orig, "cookie", v);
        if t.chance(30) {
            insert_orig(t, &mut orig, "cookie", b"second=1".to_vec());
        }
    }
    if t.chance(40) {
        insert_orig(t, &mut orig, "authorization", b"Basic Zm9vOmJhcg==".to_vec());
    }
    if t.chance(20) {
        let v = gen_special_value(t, "connection");
        insert_orig(t, &mut orig, "connection", v);
    }
    if t.chance(20) {
        insert_orig(t, &mut orig, "expect", b"100-continue".to_vec());
    }

    // Host: none / original / added (never both)
    let host_cfg = t.weighted(&[3, 2, 2]);
    if host_cfg == 1 {
        insert_orig(t, &mut orig, "host", b"explicit.test".to_vec());
    }

    // framing supplied by the caller: at most one of Content-Length / Transfer-Encoding: chunked, and only
    // where a body is sent (anything else is rejected by C17)
    let mut framing = Framing::Auto;
    // the original request sends a body at hop 0 iff its method takes one (despite applies to the final flow only)
    let orig_may_frame = takes_body && (depth == 0 || true);
    if orig_may_frame && t.chance(35) {
        let n = t.range(0, 20);
        if depth == 0 && t.chance(35) {
            framing = Framing::OrigTe;
            let v = t.pick(&["chunked", "Chunked", "CHUNKED"]).as_bytes().to_vec();
            insert_orig(t, &mut orig, "transfer-encoding", v);
        } else {
            framing = Framing::OrigCl(n);
            insert_orig(t, &mut orig, "content-length", n.to_string().into_bytes());
        }
    }
    // after a redirect the inherited content-length is gone: the final flow may be framed by added headers
    let orig_frames_final = depth == 0 && framing != Framing::Auto;

    // added headers at the final depth
    let n_added = if api == ApiSel::Call {
        0
    } else {
        match t.weighted(&[4, 3, 1]) {
            0 => t.range(0, 4),
            1 => t.range(5, 16),
            _ => t.range(17, 60),
        }
    };
    let mut added: Vec<(String, Vec<u8>)> = vec![];
    for _ in 0..n_added {
        let suppressed_name = if c16 { t.chance(45) } else { t.chance(12) };
        if t.chance(if c16 { 6 } else { 3 }) {
            // a transfer coding other than chunked is just a header the caller wants on the wire
            added.push(("Transfer-Encoding".to_string(), t.pick(&["gzip", "deflate", "x-custom"]).as_bytes().to_vec()));
        } else if suppressed_name {
            let k = *t.pick(&["cookie", "authorization", "Cookie", "AUTHORIZATION", "connection", "expect", "Expect"]);
            let v = gen_special_value(t, &k.to_ascii_lowercase());
            added.push((k.to_string(), v));
        } else {
            let h = gen_plain_header(t, &added, obs);
            added.push(h);
        }
    }
    {
        let plain: Vec<usize> = added.iter().enumerate().filter(|(_, (k, _))| !crate::model::request::is_reserved_name(k) && !k.eq_ignore_ascii_case("transfer-encoding")).map(|(i, _)| i).collect();
        if !plain.is_empty() {
            if let Some(v) = gen_long_value(t, obs) {
                let i = if t.bool() { *plain.last().unwrap() } else { *t.pick(&plain) };
                added[i].1 = v;
            }
        }
    }
    if api == ApiSel::Flow {
        if host_cfg == 2 {
            let i = t.below(added.len() + 1);
            added.insert(i, ("Host".to_string(), b"added.test".to_vec()));
        }
        if final_body && !orig_frames_final && t.chance(if c16 { 50 } else { 30 }) {
            let i = t.below(added.len() + 1);
            if t.bool() {
                let n = t.range(0, 20);
                framing = Framing::AddedCl(n);
                added.insert(i, ("content-length".to_string(), n.to_string().into_bytes()));
            } else {
                framing = Framing::AddedTe;
                added.insert(i, ("Transfer-Encoding".to_string(), b"chunked".to_vec()));
            }
        } else if c16 && final_body && !orig_frames_final && t.chance(10) {
            // both framing headers from the caller: accepted by the library (chunked wins); both must reach the wire
            let n = t.range(0, 20);
            framing = Framing::AddedTe;
            let i = t.below(added.len() + 1);
            added.insert(i, ("content-length".to_string(), n.to_string().into_bytes()));
            let j = t.below(added.len() + 1);
            added.insert(j, ("Transfer-Encoding".to_string(), b"chunked".to_vec()));
        } else if depth > 0 {
            // an OrigCl does not frame the final flow
            framing = match framing {
                Framing::OrigCl(n) => Framing::OrigCl(n),
                f => f,
            };
        }
    }
    HeadCase {
        api,
        spec: ReqSpec { method, v10, scheme, host, port, path, query, orig },
        hops,
        added,
        despite,
        framing,
    }
}

// ---------------------------------------------------------------------------------------------
// construction of the object under test

pub enum Under {
    Flow(Flow<(), SendRequest>),
    Without(Call<ureq_proto::client::call::state::WithoutBody, ()>),
    With(Call<ureq_proto::client::call::state::WithBody, ()>),
}

impl Under {
    pub fn write(&mut self, out: &mut [u8]) -> Result<usize, Error> {
        match self {
            Under::Flow(f) => f.write(out),
            Under::Without(c) => c.write(out),
            Under::With(c) => c.write(&[], out).map(|r| r.1),
        }
    }
    pub fn ready(&self) -> Option<bool> {
        match self {
            Under::Flow(f) => Some(f.can_proceed()),
            Under::Without(c) => Some(c.is_finished()),
            Under::With(_) => None,
        }
    }
}

fn redirect_response(h: &Hop) -> (Vec<u8>, Vec<u8>) {
    let body: &[u8] = if h.resp_body { b"moved" } else { b"" };
    let head = format!("HTTP/1.1 {} Moved\r\nLocation: {}\r\nContent-Length: {}\r\n\r\n", h.status, h.location(), body.len());
    (head.into_bytes(), body.to_vec())
}

/// Build the final flow in the Prepare state by really following every hop.
pub fn build_prepare(c: &HeadCase) -> Result<Flow<(), Prepare>, String> {
    let mut f = Flow::new(c.spec.build()?).map_err(|e| format!("Flow::new: {:?}", e))?;
    let mut method = c.spec.method.clone();
    for (i, h) in c.hops.iter().enumerate() {
        // hop 0 sends the original body: as long as its own content-length says, else 3 bytes chunked
        let body_len = if needs_body(&method) {
            c.spec
                .orig
                .iter()
                .find(|(k, _)| k.eq_ignore_ascii_case("content-length"))
                .map(|(_, v)| String::from_utf8_lossy(v).parse::<usize>().unwrap_or(0))
                .unwrap_or(3)
        } else {
            0
        };
        let (rh, rb) = redirect_response(h);
        let (_, _, term) = exchange(f, body_len, &rh, &rb).map_err(|e| format!("hop {}: {}", i, e))?;
        let mut red = match term {
            Terminal::Redirect(r) => r,
            Terminal::Cleanup(_) => return Err(format!("hop {}: status {} did not reach Redirect", i, h.status)),
        };
        let policy = if h.same_host_policy { RedirectAuthHeaders::SameHost } else { RedirectAuthHeaders::Never };
        f = red
            .as_new_flow(policy)
            .map_err(|e| format!("hop {}: as_new_flow: {:?}", i, e))?
            .ok_or_else(|| format!("hop {}: redirect not followed", i))?;
        method = method_after(&method, h.status);
    }
    for (k, v) in &c.added {
        f.header(k.as_str(), HeaderValue::from_bytes(v).map_err(|e| e.to_string())?).map_err(|e| format!("header({}): {:?}", k, e))?;
    }
    if c.despite {
        f.send_body_despite_method();
    }
    Ok(f)
}

pub fn build_under(c: &HeadCase) -> Result<Under, String> {
    match c.api {
        ApiSel::Flow => Ok(Under::Flow(build_prepare(c)?.proceed())),
        ApiSel::Call => {
            let req = c.spec.build()?;
            if needs_body(&c.spec.method) {
                Ok(Under::With(Call::with_body(req).map_err(|e| format!("{:?}", e))?))
            } else {
                Ok(Under::Without(Call::without_body(req).map_err(|e| format!("{:?}", e))?))
            }
        }
    }
}

// ---------------------------------------------------------------------------------------------
// oracle on the complete head

fn eq_field(a: &(String, Vec<u8>), b: &(String, Vec<u8>)) -> bool {
    a.0.eq_ignore_ascii_case(&b.0) && a.1 == b.1
}

fn show(f: &(String, Vec<u8>)) -> String {
    format!("{}: {}", f.0, String::from_utf8_lossy(&f.1))
}

/// Check the emitted head against the model. Returns the parsed head.
pub fn check_head(c: &HeadCase, eff: &Effective, head: &[u8]) -> Result<ReqHead, String> {
    let h = parse_request_head(head).map_err(|e| format!("emitted head is not one well-formed request head: {} ({:?})", e, String::from_utf8_lossy(&head[..head.len().min(160)])))?;
    if h.method != eff.method.as_str() {
        return Err(format!("request line method {} (expected {})", h.method, eff.method));
    }
    if h.target != eff.target {
        return Err(format!("request target {:?} (expected {:?})", h.target, eff.target));
    }
    let want_v = if c.spec.v10 { "HTTP/1.0" } else { "HTTP/1.1" };
    if h.version != want_v {
        return Err(format!("version {} (expected {})", h.version, want_v));
    }
    let mut fields: Vec<(String, Vec<u8>)> = h.fields.clone();

    // Host: exactly one
    let added_host = c.added.iter().filter(|(k, _)| k.eq_ignore_ascii_case("host")).count();
    let mut inherited: Vec<(String, Vec<u8>)> = eff.inherited.clone();
    if added_host == 0 && eff.inherited_host_optional {
        // followed flow on the original host: the inherited Host may have been dropped in favour of the derived one
        let wire_hosts: Vec<&Vec<u8>> = fields.iter().filter(|(k, _)| k.eq_ignore_ascii_case("host")).map(|(_, v)| v).collect();
        let inh: Vec<&Vec<u8>> = inherited.iter().filter(|(k, _)| k.eq_ignore_ascii_case("host")).map(|(_, v)| v).collect();
        if wire_hosts.len() == 1 && inh.len() == 1 && wire_hosts[0] != inh[0] && wire_hosts[0][..] == *eff.uri_host.as_bytes() {
            inherited.retain(|(k, _)| !k.eq_ignore_ascii_case("host"));
        }
    }
    let eff_inherited = &inherited;
    let caller_host = c.added.iter().chain(eff_inherited.iter()).filter(|(k, _)| k.eq_ignore_ascii_case("host")).count();
    let hosts: Vec<usize> = fields.iter().enumerate().filter(|(_, (k, _))| k.eq_ignore_ascii_case("host")).map(|(i, _)| i).collect();
    if hosts.len() != 1 {
        return Err(format!("{} Host fields in the head", hosts.len()));
    }
    if caller_host == 0 {
        if fields[hosts[0]].1 != eff.uri_host.as_bytes() {
            return Err(format!("derived Host {:?} (expected {:?})", String::from_utf8_lossy(&fields[hosts[0]].1), eff.uri_host));
        }
        fields.remove(hosts[0]);
    }

    // framing: Content-Length, or a Transfer-Encoding field whose value is "chunked"; any other Transfer-Encoding value
    // (gzip, ...) is an ordinary header as far as this client is concerned
    let is_te_chunked = |f: &(String, Vec<u8>)| f.0.eq_ignore_ascii_case("transfer-encoding") && f.1.eq_ignore_ascii_case(b"chunked");
    let caller_cl = c.added.iter().chain(eff_inherited.iter()).filter(|(k, _)| k.eq_ignore_ascii_case("content-length")).count();
    let caller_te = c.added.iter().chain(eff_inherited.iter()).filter(|f| is_te_chunked(f)).count();
    let n_cl = fields.iter().filter(|(k, _)| k.eq_ignore_ascii_case("content-length")).count();
    let tes: Vec<usize> = fields.iter().enumerate().filter(|(_, f)| is_te_chunked(f)).map(|(i, _)| i).collect();
    if !eff.body_follows {
        if n_cl != 0 || !tes.is_empty() {
            return Err(format!("no body follows but the head carries framing fields (content-length x{}, transfer-encoding: chunked x{})", n_cl, tes.len()));
        }
    } else if caller_cl == 0 && caller_te == 0 {
        if n_cl != 0 || tes.len() != 1 {
            return Err(format!("a body follows without caller framing: expected exactly one 'transfer-encoding: chunked' (content-length x{}, transfer-encoding: chunked x{})", n_cl, tes.len()));
        }
        fields.remove(tes[0]);
    } else if n_cl != caller_cl || tes.len() != caller_te {
        return Err(format!("framing fields differ from what the caller supplied (content-length x{} vs {}, transfer-encoding: chunked x{} vs {})", n_cl, caller_cl, tes.len(), caller_te));
    }

    // caller-added first, in order
    if fields.len() < c.added.len() {
        return Err(format!("{} fields emitted, {} were added by the caller", fields.len(), c.added.len()));
    }
    for (i, a) in c.added.iter().enumerate() {
        if !eq_field(&fields[i], a) {
            // say whether it is missing altogether or merely misplaced
            let anywhere = fields.iter().any(|f| eq_field(f, a));
            return Err(format!(
                "caller-added header #{} {:?} {} (found {:?} at that position)",
                i,
                show(a),
                if anywhere { "is not emitted in the order added / ahead of the original headers" } else { "is missing from the wire" },
                show(&fields[i])
            ));
        }
    }
    // then the inherited ones, per name in order. On a fresh flow every original header must be there. After a redirect
    // the statements name what must NOT be inherited (cookie, content-length, authorization unless kept); they do not promise
    // that everything else is: a client may drop headers that describe the previous request or its body, so for those names
    // (and only after a redirect) a subsequence is accepted.
    // `authorization` is in the list because C13 is an "only if": a client that forwards credentials in fewer situations than
    // allowed (e.g. not across an http -> https upgrade) keeps every statement; that it is absent where forbidden is part of `eff`.
    const REQUEST_SPECIFIC: [&str; 14] = [
        "expect", "te", "transfer-encoding", "content-type", "content-encoding", "content-language", "content-location", "referer", "origin", "if-none-match", "if-match",
        "if-modified-since", "range", "authorization",
    ];
    let rest = &fields[c.added.len()..];
    let redirected = !c.hops.is_empty();
    let mut names: Vec<String> = eff_inherited.iter().map(|(k, _)| k.to_ascii_lowercase()).collect();
    for (k, _) in rest {
        names.push(k.to_ascii_lowercase());
    }
    names.sort();
    names.dedup();
    for n in names {
        let want: Vec<&Vec<u8>> = eff_inherited.iter().filter(|(k, _)| k.eq_ignore_ascii_case(&n)).map(|(_, v)| v).collect();
        let got: Vec<&Vec<u8>> = rest.iter().filter(|(k, _)| k.eq_ignore_ascii_case(&n)).map(|(_, v)| v).collect();
        let ok = if redirected && REQUEST_SPECIFIC.contains(&n.as_str()) {
            // in-order subsequence
            let mut j = 0;
            got.iter().all(|g| {
                while j < want.len() && want[j] != *g {
                    j += 1;
                }
                j += 1;
                j <= want.len()
            })
        } else {
            want == got
        };
        if !ok {
            return Err(format!(
                "original header {:?}: values on the wire {:?}, expected {:?} (all original headers on the wire: {:?})",
                n,
                got.iter().map(|v| String::from_utf8_lossy(v).to_string()).collect::<Vec<_>>(),
                want.iter().map(|v| String::from_utf8_lossy(v).to_string()).collect::<Vec<_>>(),
                rest.iter().map(show).collect::<Vec<_>>()
            ));
        }
    }
    Ok(h)
}

/// After the head: the body (if any) must use exactly the framing the head announced.
pub fn check_body_matches(c: &HeadCase, eff: &Effective, u: Under, head: &ReqHead) -> Result<(), String> {
    let announced_te = head.values("transfer-encoding").iter().any(|v| v.eq_ignore_ascii_case(b"chunked"));
    let announced_cl: Option<usize> = head.values("content-length").first().map(|v| String::from_utf8_lossy(v).parse().unwrap_or(0));
    match u {
        Under::Flow(f) => match after_head(f)? {
            AfterHead::RecvResponse(_) => {
                // a body of zero bytes (Content-Length: 0 alone): a flow without a body state for it is as good as an empty body state
                if eff.body_follows && !(announced_cl == Some(0) && !announced_te) {
                    return Err("a body is due but the flow went to RecvResponse after the head".into());
                }
            }
            AfterHead::SendBody(mut b) => {
                if !eff.body_follows {
                    return Err("no body is due but the flow entered SendBody".into());
                }
                let len = announced_cl.unwrap_or(3);
                let wire = send_body(&mut b, len)?;
                verify_wire(&wire, len, announced_te)?;
                if b.proceed().is_none() {
                    return Err("finished body cannot advance".into());
                }
            }
        },
        Under::Without(c2) => {
            if !c2.is_finished() {
                return Err("complete head but Call::is_finished() is false".into());
            }
            let _ = c;
        }
        Under::With(mut c2) => {
            let len = announced_cl.unwrap_or(3);
            let mut out = vec![0u8; 256];
            let mut wire = vec![];
            let mut rest = &pattern()[..len];
            let mut guard = 0;
            while !rest.is_empty() {
                let (i, o) = c2.write(rest, &mut out).map_err(|e| format!("Call body write: {:?}", e))?;
                wire.extend_from_slice(&out[..o]);
                rest = &rest[i..];
                guard += 1;
                if guard > 8 {
                    return Err("Call body write makes no progress".into());
                }
            }
            if !c2.is_finished() {
                let (_, o) = c2.write(&[], &mut out).map_err(|e| format!("Call finishing write: {:?}", e))?;
                wire.extend_from_slice(&out[..o]);
            }
            if !c2.is_finished() {
                return Err("Call body not finished".into());
            }
            verify_wire(&wire, len, announced_te)?;
        }
    }
    Ok(())
}

fn verify_wire(wire: &[u8], len: usize, chunked: bool) -> Result<(), String> {
    if chunked {
        let mut d = StrictDechunk::new();
        d.feed(wire).map_err(|e| format!("head announced chunked but the body on the wire is not: {}", e))?;
        if !d.terminated || d.data[..] != pattern()[..len] {
            return Err("head announced chunked; body on the wire does not decode to the payload".into());
        }
    } else if wire != &pattern()[..len] {
        return Err(format!("head announced content-length {}; body on the wire is {} bytes / differs", len, wire.len()));
    }
    Ok(())
}

// ---------------------------------------------------------------------------------------------
// the scheduled run

pub struct RunInfo {
    pub calls: usize,
    pub overflows: usize,
}

/// Split a complete head into its lines (each including CRLF); the final empty line is the last element.
fn lines_of(head: &[u8]) -> Vec<usize> {
    // returns the end offsets of every line
    let mut ends = vec![];
    let mut i = 0;
    while i + 1 < head.len() {
        if head[i] == b'\r' && head[i + 1] == b'\n' {
            ends.push(i + 2);
            i += 2;
        } else {
            i += 1;
        }
    }
    ends
}

/// Emit the head again under a generated buffer-size schedule and validate every call against the
/// line structure of the canonical head `canon`.
pub fn scheduled_run(u: &mut Under, canon: &[u8], t: &mut Tape, extra_calls: usize) -> Result<RunInfo, String> {
    let ends = lines_of(canon);
    let nlines = ends.len(); // includes the final empty line
    let mut pos = 0usize;
    let mut calls = 0usize;
    let mut overflows = 0usize;
    let mut buf = vec![0u8; canon.len() * 2 + 70_000];
    while pos < canon.len() {
        calls += 1;
        // index of the next line
        let li = ends.iter().position(|e| *e > pos).unwrap();
        let line_len = ends[li] - pos;
        let is_last_header = li + 2 == nlines;
        let need = if is_last_header { line_len + 2 } else { line_len };
        let next_len = if li + 1 < nlines { ends[li + 1] - ends[li] } else { 0 };
        let b = if calls > 160 {
            buf.len()
        } else {
            match t.weighted(&[3, 3, 2, 2, 2, 2, 2, 1]) {
                0 => buf.len(),
                1 => need,
                2 => need.saturating_sub(1),
                3 => need + 1,
                4 => t.below(13),
                5 => line_len + next_len + t.below(3),
                6 => line_len, // fits the line but (for the last header) not the glued empty line
                _ => t.range(0, canon.len() * 2),
            }
        };
        for x in buf[..b.min(64)].iter_mut() {
            *x = 0xEE;
        }
        let ready_before = u.ready();
        if ready_before == Some(true) {
            return Err(format!("ready to advance with only {} of {} head bytes emitted", pos, canon.len()));
        }
        match u.write(&mut buf[..b]) {
            Ok(n) => {
                if n == 0 {
                    return Err(format!("call #{} with a {}-byte buffer returned Ok(0) before the head was complete (next line needs {})", calls, b, need));
                }
                if n > b || pos + n > canon.len() || buf[..n] != canon[pos..pos + n] {
                    return Err(format!("call #{} ({}-byte buffer) emitted bytes that differ from the one-shot head at offset {}", calls, b, pos));
                }
                if !ends.contains(&(pos + n)) {
                    return Err(format!("call #{} ({}-byte buffer) ended in the middle of a line (offset {})", calls, b, pos + n));
                }
                pos += n;
            }
            Err(Error::OutputOverflow) => {
                overflows += 1;
                if b >= need {
                    return Err(format!("call #{}: OutputOverflow although the next line ({} bytes) fits the {}-byte buffer", calls, need, b));
                }
            }
            Err(e) => return Err(format!("call #{} ({}-byte buffer): {:?}", calls, b, e)),
        }
    }
    if u.ready() == Some(false) {
        return Err("head complete but not ready to advance".into());
    }
    // once complete, further calls emit nothing (for Call<WithBody> a further call is a body write: not issued)
    if !matches!(u, Under::With(_)) {
        for k in 0..extra_calls {
            let b = if k % 2 == 0 { 256 } else { 0 };
            match u.write(&mut buf[..b]) {
                Ok(0) => {}
                Ok(n) => return Err(format!("write after the head was complete emitted {} bytes: {:?}", n, String::from_utf8_lossy(&buf[..n.min(40)]))),
                Err(e) => return Err(format!("write after the head was complete failed: {:?}", e)),
            }
            if u.ready() == Some(false) {
                return Err("an extra write after completion made the flow not ready".into());
            }
        }
    }
    Ok(RunInfo { calls, overflows })
}

/// The whole check for one case; returns what the NT rules need.
pub struct Outcome {
    pub info: RunInfo,
    pub head_len: usize,
}

pub fn run_case(c: &HeadCase, t: &mut Tape, st: &mut Stats) -> Result<Outcome, String> {
    let eff = effective(c);
    // 1. canonical one-shot emission, validated against the model
    let mut canon_u = build_under(c)?;
    let mut big = vec![0u8; 1 << 18];
    // "one-shot" = ample buffer. A call emits whole lines; it need not emit all that would fit (a writer with a per-call line
    // budget keeps every statement), so the ample buffer is offered until the head has ended with its empty line
    let mut canon: Vec<u8> = vec![];
    for _ in 0..200 {
        let n = canon_u.write(&mut big).map_err(|e| format!("head write into an ample buffer failed: {:?}", e))?;
        canon.extend_from_slice(&big[..n]);
        if n == 0 || canon.ends_with(b"\r\n\r\n") || canon_u.ready() == Some(true) {
            break;
        }
    }
    let parsed = check_head(c, &eff, &canon)?;
    check_body_matches(c, &eff, canon_u, &parsed)?;
    st.evals(1);
    // 2. the same head under a generated schedule
    let mut u = build_under(c)?;
    let extra = t.below(4);
    let info = scheduled_run(&mut u, &canon, t, extra)?;
    // the body still works after a scheduled (and possibly over-called) head
    check_body_matches(c, &eff, u, &parsed)?;
    st.evals(info.calls as u64);
    Ok(Outcome { info, head_len: canon.len() })
}
