//! C17 — invalid requests are rejected before a single byte is emitted.

use serde_json::json;
use ureq_proto::client::call::Call;
use ureq_proto::client::flow::Flow;
use ureq_proto::http::{HeaderValue, Method, Request, Version};

use crate::drive::recv::{needs_body, METHODS};
use crate::infra::runner::{radix, EnumDef, PropDef, RandomDef, Tier};
use crate::infra::stats::Stats;
use crate::infra::tape::Tape;
use crate::model::head::parse_request_head;

const VERSIONS: [Version; 5] = [Version::HTTP_09, Version::HTTP_10, Version::HTTP_11, Version::HTTP_2, Version::HTTP_3];

/// Host configurations: (original values, added values)
#[derive(Clone, Copy, Debug, PartialEq, Eq)]
enum HostCfg {
    None,
    Orig,
    Added,
    OrigAndAdded,
    TwoOrig,
    TwoAdded,
    NonTextual,
}
const HOSTS: [HostCfg; 7] = [HostCfg::None, HostCfg::Orig, HostCfg::Added, HostCfg::OrigAndAdded, HostCfg::TwoOrig, HostCfg::TwoAdded, HostCfg::NonTextual];

#[derive(Clone, Copy, Debug, PartialEq, Eq)]
enum ClCfg {
    None,
    Five,
    Zero,
    OrigAndAdded,
    TwoDifferent,
    Negative,
    Alpha,
    Empty,
    NonUtf8,
    TooBig,
}
const CLS: [ClCfg; 10] = [ClCfg::None, ClCfg::Five, ClCfg::Zero, ClCfg::OrigAndAdded, ClCfg::TwoDifferent, ClCfg::Negative, ClCfg::Alpha, ClCfg::Empty, ClCfg::NonUtf8, ClCfg::TooBig];

/// "chunked+gzip" stands for two fields: `transfer-encoding: chunked` followed by `transfer-encoding: gzip`
const TES: [Option<&str>; 4] = [None, Some("chunked"), Some("Chunked"), Some("chunked+gzip")];

#[derive(Clone, Copy, Debug, PartialEq, Eq)]
enum Verdict {
    Accept,
    Reject,
    DontCare,
}

#[derive(Clone, Copy, Debug, PartialEq, Eq)]
enum ApiKind {
    Flow { despite: bool },
    CallWithBody,
    CallWithoutBody,
}

/// The validity table, as worded in the property.
fn verdict(version: Version, method: &Method, host: HostCfg, cl: ClCfg, te: Option<&str>, api: ApiKind) -> Verdict {
    if version != Version::HTTP_10 && version != Version::HTTP_11 {
        return Verdict::Reject;
    }
    let m10 = [Method::GET, Method::HEAD, Method::POST].contains(method);
    if version == Version::HTTP_10 && !m10 {
        return Verdict::Reject;
    }
    if matches!(host, HostCfg::OrigAndAdded | HostCfg::TwoOrig | HostCfg::TwoAdded) {
        return Verdict::Reject;
    }
    if matches!(cl, ClCfg::OrigAndAdded | ClCfg::TwoDifferent) {
        return Verdict::Reject;
    }
    if matches!(cl, ClCfg::Negative | ClCfg::Alpha | ClCfg::Empty | ClCfg::NonUtf8) {
        return Verdict::Reject;
    }
    let framing_header = matches!(cl, ClCfg::Five | ClCfg::Zero | ClCfg::TooBig) || te.is_some();
    let (body, despite) = match api {
        ApiKind::Flow { despite } => (framing_header || needs_body(method) || despite, despite),
        ApiKind::CallWithBody => (true, false),
        ApiKind::CallWithoutBody => (framing_header, false),
    };
    if !despite {
        if body && !needs_body(method) {
            return Verdict::Reject;
        }
        if !body && needs_body(method) {
            return Verdict::Reject;
        }
    }
    if host == HostCfg::NonTextual || cl == ClCfg::TooBig {
        return Verdict::DontCare;
    }
    Verdict::Accept
}

struct Built {
    req: Request<()>,
    added: Vec<(&'static str, HeaderValue)>,
}

fn build(version: Version, method: &Method, host: HostCfg, cl: ClCfg, te: Option<&str>) -> Built {
    let mut b = Request::builder().method(method.clone()).uri("http://u.test/path?q=1").version(version).header("x-first", "1");
    let mut added: Vec<(&'static str, HeaderValue)> = vec![];
    let hv = |s: &str| HeaderValue::from_str(s).unwrap();
    match host {
        HostCfg::None => {}
        HostCfg::Orig => b = b.header("host", "o.test"),
        HostCfg::Added => added.push(("host", hv("a.test"))),
        HostCfg::OrigAndAdded => {
            b = b.header("host", "o.test");
            added.push(("host", hv("a.test")));
        }
        HostCfg::TwoOrig => b = b.header("host", "o.test").header("Host", "o2.test"),
        HostCfg::TwoAdded => {
            added.push(("host", hv("a.test")));
            added.push(("host", hv("a.test")));
        }
        HostCfg::NonTextual => b = b.header("host", HeaderValue::from_bytes(b"h\xff.test").unwrap()),
    }
    match cl {
        ClCfg::None => {}
        ClCfg::Five => b = b.header("content-length", "5"),
        ClCfg::Zero => added.push(("content-length", hv("0"))),
        ClCfg::OrigAndAdded => {
            b = b.header("content-length", "5");
            added.push(("content-length", hv("5")));
        }
        ClCfg::TwoDifferent => b = b.header("content-length", "5").header("content-length", "6"),
        ClCfg::Negative => b = b.header("content-length", "-1"),
        ClCfg::Alpha => added.push(("content-length", hv("abc"))),
        ClCfg::Empty => b = b.header("content-length", ""),
        ClCfg::NonUtf8 => b = b.header("content-length", HeaderValue::from_bytes(b"5\xff").unwrap()),
        ClCfg::TooBig => b = b.header("content-length", "18446744073709551616"),
    }
    if let Some(v) = te {
        if v == "chunked+gzip" {
            b = b.header("transfer-encoding", "chunked").header("transfer-encoding", "gzip");
        } else {
            b = b.header("transfer-encoding", v);
        }
    }
    Built { req: b.body(()).unwrap(), added }
}

/// Uniform view of "a thing whose head we try to write".
enum Writer {
    Flow(Flow<(), ureq_proto::client::flow::state::SendRequest>),
    With(Call<ureq_proto::client::call::state::WithBody, ()>),
    Without(Call<ureq_proto::client::call::state::WithoutBody, ()>),
}

impl Writer {
    fn write(&mut self, out: &mut [u8]) -> Result<usize, ureq_proto::Error> {
        match self {
            Writer::Flow(f) => f.write(out),
            Writer::With(c) => c.write(&[], out).map(|r| r.1),
            Writer::Without(c) => c.write(out),
        }
    }
    fn ready(&self) -> Option<bool> {
        match self {
            Writer::Flow(f) => Some(f.can_proceed()),
            Writer::With(c) => Some(c.is_finished()),
            Writer::Without(c) => Some(c.is_finished()),
        }
    }
}

fn check(version: Version, method: &Method, host: HostCfg, cl: ClCfg, te: Option<&str>, api: ApiKind, peek: bool, st: &mut Stats) -> Result<(), String> {
    let v = verdict(version, method, host, cl, te, api);
    let what = format!("{:?} {} host={:?} cl={:?} te={:?} api={:?}", version, method, host, cl, te, api);
    st.evals(1);
    let built = build(version, method, host, cl, te);
    let mut w = match api {
        ApiKind::Flow { despite } => {
            let mut f = match Flow::new(built.req) {
                Ok(f) => f,
                Err(e) => {
                    // rejecting at construction is "before a single byte is emitted" as well
                    if v == Verdict::Accept {
                        return Err(format!("{}: valid request refused by Flow::new: {:?}", what, e));
                    }
                    return Ok(());
                }
            };
            for (k, val) in &built.added {
                f.header(*k, val.clone()).map_err(|e| format!("{}: header(): {:?}", what, e))?;
            }
            if despite {
                f.send_body_despite_method();
            }
            let mut sr = f.proceed();
            if peek {
                // the inspection calls a caller may make before the first write (logging, signing): whatever they answer, the
                // request is judged by the same table afterwards
                let _ = sr.headers_map();
                let _ = (sr.method().clone(), sr.uri().clone(), sr.version());
                st.class("inspected_before_first_write");
            }
            Writer::Flow(sr)
        }
        ApiKind::CallWithBody => match Call::with_body(built.req) {
            Ok(c) => Writer::With(c),
            Err(e) => {
                if v == Verdict::Accept {
                    return Err(format!("{}: valid request refused by Call::with_body: {:?}", what, e));
                }
                return Ok(());
            }
        },
        ApiKind::CallWithoutBody => match Call::without_body(built.req) {
            Ok(c) => Writer::Without(c),
            Err(e) => {
                if v == Verdict::Accept {
                    return Err(format!("{}: valid request refused by Call::without_body: {:?}", what, e));
                }
                return Ok(());
            }
        },
    };
    let mut tiny0 = [0u8; 0];
    let mut tiny1 = [0u8; 1];
    let mut big = [0u8; 1024];
    // buffers too small for anything: an error for valid and invalid requests alike, and never a byte
    for (label, r) in [("0-byte", w.write(&mut tiny0)), ("1-byte", w.write(&mut tiny1))] {
        if let Ok(n) = r {
            return Err(format!("{}: write into a {} buffer returned Ok({})", what, label, n));
        }
    }
    if w.ready() == Some(true) {
        return Err(format!("{}: ready to advance before anything was written", what));
    }
    let first = w.write(&mut big);
    let accepted = first.is_ok();
    match v {
        Verdict::Reject if accepted => {
            let n = first.unwrap();
            return Err(format!("{}: invalid request was written: {:?}", what, String::from_utf8_lossy(&big[..n.min(80)])));
        }
        Verdict::Accept if !accepted => return Err(format!("{}: valid request refused: {:?}", what, first.err())),
        _ => {}
    }
    if !accepted {
        // repeatable, never ready, advancing yields nothing
        for i in 2..=3 {
            if let Ok(n) = w.write(&mut big) {
                return Err(format!("{}: write #{} succeeded ({} bytes) after the first one was refused", what, i, n));
            }
        }
        if w.ready() == Some(true) {
            return Err(format!("{}: refused request is ready to advance", what));
        }
        // (the single-call API has no guarded advance: Call::<WithoutBody>::into_receive() succeeds even before the
        // head is written, contrary to its doc comment; the statement speaks of the readiness query, so only that is
        // asserted there)
        let advanced = match w {
            Writer::Flow(f) => matches!(f.proceed(), Ok(Some(_))),
            Writer::With(_) | Writer::Without(_) => false,
        };
        if advanced {
            return Err(format!("{}: refused request advanced to the next state", what));
        }
        st.class("rejected");
        st.count_nontrivial(1);
    } else {
        let n = first.unwrap();
        let h = parse_request_head(&big[..n]).map_err(|e| format!("{}: accepted request wrote an invalid head: {} ({:?})", what, e, String::from_utf8_lossy(&big[..n.min(120)])))?;
        if h.method != method.as_str() || h.target != "/path?q=1" {
            return Err(format!("{}: head is {} {}", what, h.method, h.target));
        }
        let want_v = if version == Version::HTTP_10 { "HTTP/1.0" } else { "HTTP/1.1" };
        if h.version != want_v {
            return Err(format!("{}: head version {}", what, h.version));
        }
        if h.values("host").len() != 1 {
            return Err(format!("{}: {} host fields on the wire", what, h.values("host").len()));
        }
        if w.ready() == Some(false) && !matches!(w, Writer::With(_)) {
            return Err(format!("{}: complete head but not ready to advance", what));
        }
        st.class("accepted");
        let despite = matches!(api, ApiKind::Flow { despite: true });
        if despite || (te.is_some() && cl != ClCfg::None) {
            st.count_nontrivial(1);
        }
    }
    if v == Verdict::DontCare {
        st.class("dont_care");
    }
    if st.wants_sample() && (host as usize + cl as usize) % 7 == 3 && version == Version::HTTP_11 {
        st.sample(json!({"cell": what, "model": format!("{:?}", v), "accepted": accepted}));
    }
    Ok(())
}

/// Random stage: a valid base request, then zero or one invalidating feature, so that accept and reject are balanced.
fn exec_near_valid(t: &mut Tape, st: &mut Stats) -> Result<(), String> {
    let v11 = !t.chance(30);
    let version = if v11 { Version::HTTP_11 } else { Version::HTTP_10 };
    let method = if v11 { METHODS[t.below(9)].clone() } else { [Method::GET, Method::HEAD, Method::POST][t.below(3)].clone() };
    let flow = t.chance(70);
    let despite = flow && t.chance(30);
    let takes_body = needs_body(&method);
    let mut host = *t.pick(&[HostCfg::None, HostCfg::Orig, HostCfg::Added]);
    // framing consistent with the method (or anything with despite)
    let (mut cl, mut te) = if takes_body || despite {
        match t.below(4) {
            0 => (ClCfg::None, None),
            1 => (ClCfg::Five, None),
            2 => (ClCfg::Zero, None),
            _ => (ClCfg::None, TES[t.range(1, 3)]),
        }
    } else {
        (ClCfg::None, None)
    };
    let mut version = version;
    let mut method = method;
    let mutated = t.chance(50);
    if mutated {
        match t.below(7) {
            0 => version = *t.pick(&[Version::HTTP_09, Version::HTTP_2, Version::HTTP_3]),
            1 => host = *t.pick(&[HostCfg::OrigAndAdded, HostCfg::TwoOrig, HostCfg::TwoAdded]),
            2 => cl = *t.pick(&[ClCfg::OrigAndAdded, ClCfg::TwoDifferent]),
            3 => cl = *t.pick(&[ClCfg::Negative, ClCfg::Alpha, ClCfg::Empty, ClCfg::NonUtf8]),
            4 => {
                // framing on a method that takes none
                method = [Method::GET, Method::HEAD, Method::DELETE, Method::OPTIONS, Method::TRACE, Method::CONNECT][t.below(6)].clone();
                version = Version::HTTP_11;
                if t.bool() {
                    cl = ClCfg::Five;
                } else {
                    te = Some("chunked");
                }
            }
            5 => {
                version = Version::HTTP_10;
                method = [Method::PUT, Method::DELETE, Method::PATCH, Method::OPTIONS][t.below(4)].clone();
            }
            _ => te = Some("chunked"),
        }
    }
    if !flow {
        // the single-call API has no added headers
        host = match host {
            HostCfg::Added => HostCfg::Orig,
            HostCfg::OrigAndAdded | HostCfg::TwoAdded => HostCfg::TwoOrig,
            h => h,
        };
        cl = match cl {
            ClCfg::Zero => ClCfg::Five,
            ClCfg::OrigAndAdded => ClCfg::TwoDifferent,
            ClCfg::Alpha => ClCfg::Negative,
            c => c,
        };
    }
    let api = if flow {
        ApiKind::Flow { despite }
    } else if needs_body(&method) || t.chance(20) {
        ApiKind::CallWithBody
    } else {
        ApiKind::CallWithoutBody
    };
    let peek = t.below(3) == 1;
    st.case_digest = t.digest();
    st.describe(|| json!({"api": format!("{:?}", api), "version": format!("{:?}", version), "method": method.as_str(), "host": format!("{:?}", host), "cl": format!("{:?}", cl), "te": te, "inspected_first": peek}));
    st.class(if mutated { "near_valid_mutated" } else { "near_valid_plain" });
    check(version, &method, host, cl, te, api, peek, st)
}

/// Stage 'redirected': a valid request that carried a body and framing, redirected by 301/302/303 (method becomes GET) or a
/// body-less request redirected by 307/308: the request the followed flow makes is valid - its first write must succeed.
fn exec_redirected(t: &mut Tape, st: &mut Stats) -> Result<(), String> {
    use crate::drive::redirect::{exchange, Terminal};
    use ureq_proto::client::flow::RedirectAuthHeaders;
    let method = [Method::POST, Method::PUT, Method::PATCH, Method::GET, Method::DELETE, Method::OPTIONS][t.below(6)].clone();
    let status = [301u16, 302, 303, 307, 308][t.below(5)];
    let own_cl = t.below(2) == 1;
    let host_orig = t.below(2) == 1;
    let despite_first = t.below(2) == 1;
    let policy = if t.below(2) == 0 { RedirectAuthHeaders::Never } else { RedirectAuthHeaders::SameHost };
    // where the redirect leads, and what the caller adds to the followed flow before its request is made
    let cross_host = t.below(2) == 1;
    let added = t.below(6);
    st.evals(1);
    let takes = needs_body(&method);
    let body_first = takes || despite_first;
    if own_cl && !body_first {
        st.class("skipped_invalid");
        return Ok(());
    }
    const ADDED: [&str; 6] = ["nothing", "content-length: abc", "content-length: 5", "host: extra.test", "x-a: b", "content-length: 5 + send-body-despite-method"];
    let what = format!(
        "{} (own content-length {}, explicit host {}, despite {}) -> {} to {} -> followed request, caller adds {}",
        method, own_cl, host_orig, despite_first, status, if cross_host { "another host" } else { "the same host" }, ADDED[added]
    );
    st.describe(|| json!({"stage": "redirected", "case": what}));
    let mut b = Request::builder().method(method.clone()).uri("http://u.test/a/b?c=1").header("cookie", "k=v").header("authorization", "t");
    if own_cl {
        b = b.header("content-length", "4");
    }
    if host_orig {
        b = b.header("host", "explicit.test");
    }
    let mut f = Flow::new(b.body(()).unwrap()).map_err(|e| format!("{}: Flow::new: {:?}", what, e))?;
    if despite_first && !takes {
        f.send_body_despite_method();
    }
    let head = format!(
        "HTTP/1.1 {} R\r\nLocation: {}\r\nContent-Length: 0\r\n\r\n",
        status,
        if cross_host { "http://other.test/moved" } else { "/moved" }
    );
    let (_, _, term) = exchange(f, if own_cl { 4 } else { 3 }, head.as_bytes(), b"").map_err(|e| format!("{}: {}", what, e))?;
    let mut red = match term {
        Terminal::Redirect(r) => r,
        Terminal::Cleanup(_) => return Err(format!("{}: no redirect state", what)),
    };
    let mut nf = match red.as_new_flow(policy).map_err(|e| format!("{}: as_new_flow: {:?}", what, e))? {
        Some(nf) => nf,
        None => {
            st.class("redirect_not_followed");
            return Ok(());
        }
    };
    let m2 = nf.method().clone();
    // every followed method takes no body (GET, HEAD, OPTIONS): the validity table applied to (inherited - suppressed) + added
    let add = |nf: &mut Flow<(), ureq_proto::client::flow::state::Prepare>, k: &str, v: &str| nf.header(k, v).map_err(|e| format!("{}: Flow::header: {:?}", what, e));
    let reject = match added {
        1 => {
            add(&mut nf, "content-length", "abc")?;
            true
        }
        2 => {
            add(&mut nf, "content-length", "5")?;
            // a body-less request that was sent with send-body-despite-method and is repeated by a 307/308: whether the followed
            // flow still sends a body despite the method is not stated, so a Content-Length on it is judged either way
            if despite_first && !takes && matches!(status, 307 | 308) {
                st.class("redirected_dont_care_despite_carried");
                return Ok(());
            }
            true
        }
        3 => {
            add(&mut nf, "host", "extra.test")?;
            // two Host fields only when the inherited one is still there: an explicit Host of the original request does not
            // travel to another host (C14), so after a cross-host redirect the caller's is the only one
            host_orig && !cross_host
        }
        4 => {
            add(&mut nf, "x-a", "b")?;
            false
        }
        5 => {
            add(&mut nf, "content-length", "5")?;
            nf.send_body_despite_method();
            false
        }
        _ => false,
    };
    let mut sr = nf.proceed();
    let mut big = [0u8; 1024];
    if reject {
        // invalid because of what the caller added to the followed flow: refused on every attempt, never ready
        for round in 0..2 {
            for size in [0usize, 1, 1024] {
                if let Ok(n) = sr.write(&mut big[..size]) {
                    return Err(format!("{}: invalid followed request accepted ({} bytes written into {} bytes, attempt {})", what, n, size, round));
                }
                if sr.can_proceed() {
                    return Err(format!("{}: invalid followed request became ready", what));
                }
            }
        }
        if let Ok(Some(_)) = sr.proceed() {
            return Err(format!("{}: invalid followed request advanced", what));
        }
        st.class("redirected_rejected");
        st.count_nontrivial(1);
        return Ok(());
    }
    match sr.write(&mut big) {
        Err(e) => return Err(format!("{}: the followed {} request is valid (no body, inherited content-length suppressed) but was refused: {:?}", what, m2, e)),
        Ok(n) => {
            let h = parse_request_head(&big[..n]).map_err(|e| format!("{}: followed head invalid: {}", what, e))?;
            if h.method != m2.as_str() || h.target != "/moved" {
                return Err(format!("{}: followed head is {} {}", what, h.method, h.target));
            }
            let hosts = h.fields.iter().filter(|(k, _)| k.eq_ignore_ascii_case("host")).count();
            if hosts != 1 {
                return Err(format!("{}: followed head carries {} Host fields", what, hosts));
            }
            if !sr.can_proceed() {
                return Err(format!("{}: followed head complete but not ready", what));
            }
        }
    }
    st.class("redirected_accepted");
    st.count_nontrivial(1);
    Ok(())
}

const FLOW_BASES: [u64; 6] = [5, 9, 7, 10, 4, 2];
const CALL_BASES: [u64; 6] = [5, 9, 4, 9, 4, 2];

fn exec_flow(t: &mut Tape, st: &mut Stats) -> Result<(), String> {
    let version = VERSIONS[t.below(5)];
    let method = METHODS[t.below(9)].clone();
    let host = HOSTS[t.below(7)];
    let cl = CLS[t.below(10)];
    let te = TES[t.below(4)];
    let despite = t.below(2) == 1;
    st.describe(|| json!({"api": "flow", "version": format!("{:?}", version), "method": method.as_str(), "host": format!("{:?}", host), "cl": format!("{:?}", cl), "te": te, "despite": despite}));
    check(version, &method, host, cl, te, ApiKind::Flow { despite }, false, st)?;
    check(version, &method, host, cl, te, ApiKind::Flow { despite }, true, st)
}

fn exec_call(t: &mut Tape, st: &mut Stats) -> Result<(), String> {
    const CALL_HOSTS: [HostCfg; 4] = [HostCfg::None, HostCfg::Orig, HostCfg::TwoOrig, HostCfg::NonTextual];
    const CALL_CLS: [ClCfg; 9] = [ClCfg::None, ClCfg::Five, ClCfg::TwoDifferent, ClCfg::Negative, ClCfg::Empty, ClCfg::NonUtf8, ClCfg::TooBig, ClCfg::Five, ClCfg::None];
    let version = VERSIONS[t.below(5)];
    let method = METHODS[t.below(9)].clone();
    let host = CALL_HOSTS[t.below(4)];
    let cl = CALL_CLS[t.below(9)];
    let te = TES[t.below(4)];
    let api = if t.below(2) == 0 { ApiKind::CallWithoutBody } else { ApiKind::CallWithBody };
    st.describe(|| json!({"api": format!("{:?}", api), "version": format!("{:?}", version), "method": method.as_str(), "host": format!("{:?}", host), "cl": format!("{:?}", cl), "te": te}));
    check(version, &method, host, cl, te, api, false, st)
}

pub static DEF: PropDef = PropDef {
    id: "C17",
    rule: "exhaustive enumeration 'flow': versions {0.9, 1.0, 1.1, 2, 3} x 9 methods x Host in {none, original, added, original+added, two \
original, two added, non-textual} x Content-Length in {none, 5, 0 (added), original+added, two different, -1, abc (added), empty, \
non-UTF-8, > u64::MAX} x Transfer-Encoding in {none, chunked, Chunked, two fields chunked + gzip} x send-body-despite-method {no, yes} = 25200 cells on \
Flow, each twice: written at once, and written after the inspection calls of the SendRequest state (headers_map(), method(), uri(), version()); 'call': versions x methods x Host {none, one, two, non-textual} x Content-Length classes x TE x {without_body, with_body} = 12960 \
cells; 'redirected': requests produced by following a redirect (the effective headers are the original ones minus the suppressed \
names) to the same or another host must be accepted, also with an explicit inherited Host, and what the caller adds to the followed flow \
(non-numeric Content-Length, Content-Length on a body-less method, a second Host) must be judged by the same table (5760 cells). Oracle = validity table: reject iff version not 1.0/1.1, method undefined for the version, > 1 Host, > 1 Content-Length, \
non-numeric Content-Length, body (framing header / with-body constructor / body method on Flow) on a method that takes none \
without despite, or body method without body. Rejected => every write (0-byte, 1-byte, ample, repeated) is Err, never ready, \
advancing yields nothing; accepted => ample write emits a head that parses strictly with the right method/target/version and one \
Host, and is ready. Don't-care (consistency still checked): non-textual Host, Content-Length > u64::MAX. random 'near_valid': a valid base request plus zero or one invalidating feature (balances accept/reject). non-trivial = rejected cells \
and accepted cells with despite-method or both framing headers; distinct by enumeration index.",
    assumptions: &["rejecting at construction time (Flow::new / Call::with_body) also counts as 'before a byte is emitted'"],
    exec: exec_flow,
    enums: &[
        EnumDef {
            name: "flow",
            count: |_t: Tier| crate::infra::runner::product(&FLOW_BASES),
            tape: |_, idx| radix(idx, &FLOW_BASES),
            exhaustive: true,
            exec: None,
        },
        EnumDef {
            name: "redirected",
            count: |_t: Tier| 6 * 5 * 2 * 2 * 2 * 2 * 2 * 6,
            tape: |_, idx| radix(idx, &[6, 5, 2, 2, 2, 2, 2, 6]),
            exhaustive: true,
            exec: Some(exec_redirected),
        },
        EnumDef {
            name: "call",
            count: |_t: Tier| crate::infra::runner::product(&CALL_BASES),
            tape: |_, idx| radix(idx, &CALL_BASES),
            exhaustive: true,
            exec: Some(exec_call),
        },
    ],
    randoms: &[RandomDef {
        name: "near_valid",
        cases: |t: Tier| t.pick(3_000_000, 80_000_000),
        tape_len: 24,
        exec: Some(exec_near_valid),
    }],
    extra: None,
};
