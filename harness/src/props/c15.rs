//! C15 — redirect method rewriting follows the documented table.

use serde_json::json;
use ureq_proto::client::flow::{Flow, RecvBodyResult, RecvResponseResult, RedirectAuthHeaders};
use ureq_proto::client::flow::state::Redirect;
use ureq_proto::http::Method;

use crate::drive::exchange::{check_against_truth, run_exchange, AwaitMode, ExchangeSpec, Outcome, ReqConn, ReqFraming, RespSpec, Sched, ServerPre, Terminal};
use crate::drive::recv::{flow_recv, METHODS};
use crate::model::head::RespHead;
use crate::infra::runner::{radix, EnumDef, PropDef, Tier};
use crate::infra::stats::Stats;
use crate::infra::tape::Tape;
use crate::model::head::parse_request_head;

pub enum Landed {
    Redirect(Flow<(), Redirect>),
    Cleanup,
}

/// Drive a sent request through `head` (+ `body`) into Redirect or Cleanup.
pub fn land(method: &Method, head: &[u8], body: &[u8]) -> Result<Landed, String> {
    let mut f = flow_recv(method, false, &[("authorization", "secret"), ("cookie", "a=b")])?;
    match f.try_response(head) {
        Ok((n, Some(_))) if n == head.len() => {}
        other => return Err(format!("head not accepted: {:?}", other.map(|o| (o.0, o.1.is_some())))),
    }
    match f.proceed().ok_or("cannot proceed after the head")? {
        RecvResponseResult::Redirect(r) => Ok(Landed::Redirect(r)),
        RecvResponseResult::Cleanup(_) => Ok(Landed::Cleanup),
        RecvResponseResult::RecvBody(mut b) => {
            let mut out = [0u8; 64];
            let (i, o) = b.read(body, &mut out).map_err(|e| format!("body read: {:?}", e))?;
            if i != body.len() || out[..o] != body[..] {
                return Err(format!("body read returned ({}, {}) for {} bytes", i, o, body.len()));
            }
            match b.proceed().ok_or("cannot proceed after the body")? {
                RecvBodyResult::Redirect(r) => Ok(Landed::Redirect(r)),
                RecvBodyResult::Cleanup(_) => Ok(Landed::Cleanup),
            }
        }
    }
}

fn exec(t: &mut Tape, st: &mut Stats) -> Result<(), String> {
    let m = t.below(9);
    let status = 300 + t.below(100) as u16;
    let policy = if t.below(2) == 0 { RedirectAuthHeaders::Never } else { RedirectAuthHeaders::SameHost };
    let with_body = t.below(2) == 1;
    let with_location = t.below(2) == 0;
    // request path: 0 plain; 1 send-body-despite-method (methods that take none); 2 Expect: 100-continue answered by this
    // very 3xx while awaiting (the body is never sent)
    let path = t.below(3);
    let method = METHODS[m].clone();
    st.describe(|| json!({"method": method.as_str(), "status": status, "policy": format!("{:?}", policy), "with_body": with_body, "with_location": with_location, "path": path}));
    st.evals(1);
    let takes_body = crate::drive::recv::needs_body(&method);
    if path == 1 && takes_body {
        st.class("skipped_despite_on_body_method");
        return Ok(());
    }
    let despite = path == 1 || (path == 2 && !takes_body);
    let nobody = crate::drive::exgen::no_body_clause(&method, status);
    let mut fields = vec![crate::model::head::Field::new("X-A", "1")];
    if with_location {
        fields.push(crate::model::head::Field::new("Location", "/next?x=1"));
    }
    fields.push(crate::model::head::Field::new("Content-Length", if with_body { "3" } else { "0" }));
    let body: Vec<u8> = if with_body && !nobody { b"abc".to_vec() } else { vec![] };
    let spec = ExchangeSpec {
        method: method.clone(),
        req_v10: false,
        uri: "http://h.test/p".into(),
        req_conn: ReqConn::Absent,
        expect: path == 2,
        despite,
        req_framing: ReqFraming::Auto,
        extra_headers: vec![("authorization".into(), "secret".into()), ("cookie".into(), "a=b".into())],
        body: b"req".to_vec(),
        await_mode: AwaitMode::Look,
        server_pre: if path == 2 { ServerPre::Refuse } else { ServerPre::Silent },
        resp: RespSpec { head: RespHead { v11: true, status, reason: Some(b"R".to_vec()), fields }, body_wire: body.clone(), payload: body, close_delimited: false },
        prep: 0,
    };
    let what = format!("{} {} {:?} body={} location={} path={}", method, status, policy, with_body, with_location, ["plain", "despite-method", "expect-refused"][path]);
    let stream = spec.stream();
    let (obs, term) = match run_exchange(&spec, None, &stream, &mut Sched::canonical()).map_err(|e| format!("{}: {}", what, e))? {
        Outcome::Done(o, t) => (o, t),
        Outcome::Premature(_) => return Err("harness: premature".into()),
        Outcome::NotCompared(_) => return Ok(()),
    };
    check_against_truth(&spec, &obs, true, stream.len()).map_err(|e| format!("{}: {}", what, e))?;
    let landed = match term {
        Terminal::Redirect(r) => Landed::Redirect(r),
        Terminal::Cleanup(_) => Landed::Cleanup,
    };
    let mut red = match landed {
        Landed::Cleanup => {
            if status != 304 {
                return Err(format!("{}: redirect state not entered", what));
            }
            st.class("not_modified");
            return Ok(());
        }
        Landed::Redirect(r) => {
            if status == 304 {
                return Err(format!("{}: 304 entered the redirect state", what));
            }
            r
        }
    };
    if red.status().as_u16() != status {
        return Err(format!("{}: redirect state reports status {}", what, red.status()));
    }
    if !with_location {
        // entering the redirect state does not depend on a Location; following it is an error (C14)
        if red.as_new_flow(policy).is_ok() {
            return Err(format!("{}: as_new_flow succeeded without a Location header", what));
        }
        st.class("no_location");
        st.count_nontrivial(1);
        return Ok(());
    }
    let retaining = status == 307 || status == 308;
    let expected: Option<Method> = if retaining {
        if [Method::POST, Method::PUT, Method::PATCH, Method::DELETE].contains(&method) {
            None
        } else {
            Some(method.clone())
        }
    } else if method == Method::HEAD {
        Some(Method::HEAD)
    } else {
        Some(Method::GET)
    };
    let next = red.as_new_flow(policy).map_err(|e| format!("{}: as_new_flow failed: {:?}", what, e))?;
    match (&expected, next) {
        (None, None) => st.class("not_followed"),
        (None, Some(n)) => return Err(format!("{}: redirect followed with {} although the table says it is not followed", what, n.method())),
        (Some(m), None) => return Err(format!("{}: redirect not followed, the table says {}", what, m)),
        (Some(m), Some(n)) => {
            if n.method() != m {
                return Err(format!("{}: new flow has method {}, the table says {}", what, n.method(), m));
            }
            // the new flow is usable and puts that method on the wire
            let mut sr = n.proceed();
            let mut out = [0u8; 512];
            let k = sr.write(&mut out).map_err(|e| format!("{}: head write of the new flow failed: {:?}", what, e))?;
            let h = parse_request_head(&out[..k]).map_err(|e| format!("{}: new head invalid: {}", what, e))?;
            if h.method != m.as_str() || h.target != "/next?x=1" {
                return Err(format!("{}: new head is {} {}", what, h.method, h.target));
            }
            st.class("followed");
        }
    }
    let fresh_status = ![301u16, 302, 307, 308].contains(&status);
    let fresh_method = ![Method::GET, Method::POST].contains(&method);
    if fresh_status || fresh_method {
        st.count_nontrivial(1);
        if st.wants_sample() && status % 13 == 5 && m % 3 == 1 {
            st.sample(json!({"cell": what, "expected_method": expected.map(|m| m.to_string())}));
        }
    }
    Ok(())
}

fn table(method: &Method, status: u16) -> Option<Method> {
    if status == 307 || status == 308 {
        if [Method::POST, Method::PUT, Method::PATCH, Method::DELETE].contains(method) {
            None
        } else {
            Some(method.clone())
        }
    } else if *method == Method::HEAD {
        Some(Method::HEAD)
    } else {
        Some(Method::GET)
    }
}

const V_STATUS: [u16; 8] = [301, 302, 303, 307, 308, 300, 305, 399];
const V_LOC: [&str; 5] = ["/next?x=1", "http://other.test/p", "http://h.test/p", "/p", ""];
const V_BASES: [u64; 7] = [9, 8, 2, 2, 2, 5, 4];

/// Stage 'variants': the table depends on method and status only. Request version 1.0 / 1.1, a Content-Length header on
/// the request itself, send-body-despite-method, Locations that resolve to the very same URI, and a second hop whose
/// method is the one the first hop produced.
fn exec_variants(t: &mut Tape, st: &mut Stats) -> Result<(), String> {
    let method = METHODS[t.below(9)].clone();
    let status1 = V_STATUS[t.below(8)];
    let req_v10 = t.below(2) == 1;
    let own_cl = t.below(2) == 1;
    let despite = t.below(2) == 1;
    let loc = V_LOC[t.below(5)];
    let status2 = [0u16, 301, 307, 308][t.below(4)];
    st.evals(1);
    let takes_body = crate::drive::recv::needs_body(&method);
    if req_v10 && ![Method::GET, Method::HEAD, Method::POST].contains(&method) {
        st.class("skipped_invalid");
        return Ok(());
    }
    if despite && takes_body {
        st.class("skipped_invalid");
        return Ok(());
    }
    let body_due = takes_body || despite;
    if own_cl && !body_due {
        st.class("skipped_invalid");
        return Ok(());
    }
    let what = format!("{} (HTTP/1.{}, own content-length: {}, despite: {}) -> {} Location {:?} -> {}", method, if req_v10 { 0 } else { 1 }, own_cl, despite, status1, loc, status2);
    st.describe(|| json!({"stage": "variants", "case": what}));
    let mk_resp = |status: u16, loc: &str| RespSpec {
        head: RespHead { v11: true, status, reason: Some(b"R".to_vec()), fields: vec![crate::model::head::Field::new("Location", loc), crate::model::head::Field::new("Content-Length", "0")] },
        body_wire: vec![],
        payload: vec![],
        close_delimited: false,
    };
    let spec = ExchangeSpec {
        method: method.clone(),
        req_v10,
        uri: "http://h.test/p".into(),
        req_conn: ReqConn::Absent,
        expect: false,
        despite,
        req_framing: if own_cl { ReqFraming::Cl } else { ReqFraming::Auto },
        extra_headers: vec![("x-k".into(), "1".into())],
        body: b"12345".to_vec(),
        await_mode: AwaitMode::NeverLook,
        server_pre: ServerPre::Silent,
        resp: mk_resp(status1, loc),
        prep: 0,
    };
    let stream = spec.stream();
    let term = match run_exchange(&spec, None, &stream, &mut Sched::canonical()).map_err(|e| format!("{}: {}", what, e))? {
        Outcome::Done(o, t) => {
            check_against_truth(&spec, &o, true, stream.len()).map_err(|e| format!("{}: {}", what, e))?;
            t
        }
        Outcome::Premature(_) => return Err("harness: premature".into()),
        Outcome::NotCompared(_) => return Ok(()),
    };
    let mut red = match term {
        Terminal::Redirect(r) => r,
        Terminal::Cleanup(_) => return Err(format!("{}: redirect state not entered", what)),
    };
    let want1 = table(&method, status1);
    let nf = match (red.as_new_flow(RedirectAuthHeaders::SameHost).map_err(|e| format!("{}: as_new_flow: {:?}", what, e))?, &want1) {
        (None, None) => {
            st.class("variant_not_followed");
            st.count_nontrivial(1);
            return Ok(());
        }
        (Some(n), None) => return Err(format!("{}: followed with {} although the table says it is not followed", what, n.method())),
        (None, Some(m)) => return Err(format!("{}: not followed, the table says {}", what, m)),
        (Some(n), Some(m)) => {
            if n.method() != m {
                return Err(format!("{}: new flow has method {}, the table says {}", what, n.method(), m));
            }
            n
        }
    };
    st.class("variant_followed");
    st.count_nontrivial(1);
    if status2 == 0 {
        return Ok(());
    }
    // second hop: the method is whatever the first hop produced
    let m1 = want1.unwrap();
    // a despite-method request repeated by a 307/308: the caller states the wish again on the followed flow (whether it is
    // remembered is not stated), so a body is due either way
    let carried_despite = despite && !takes_body && matches!(status1, 307 | 308);
    let spec2 = ExchangeSpec {
        method: m1.clone(),
        req_v10,
        uri: String::new(),
        req_conn: ReqConn::Absent,
        expect: false,
        despite: carried_despite,
        req_framing: ReqFraming::Auto,
        extra_headers: vec![],
        body: vec![],
        await_mode: AwaitMode::NeverLook,
        server_pre: ServerPre::Silent,
        resp: mk_resp(status2, "/third"),
        prep: 0,
    };
    if crate::drive::recv::needs_body(&m1) {
        // a body method survives only 301..303 -> never: m1 is GET/HEAD or a body-less method
        return Ok(());
    }
    let stream2 = spec2.stream();
    let term2 = match run_exchange(&spec2, Some(nf), &stream2, &mut Sched::canonical()).map_err(|e| format!("{}: second hop: {}", what, e))? {
        Outcome::Done(o, t) => {
            check_against_truth(&spec2, &o, true, stream2.len()).map_err(|e| format!("{}: second hop: {}", what, e))?;
            t
        }
        Outcome::Premature(_) => return Err("harness: premature".into()),
        // the second hop was specified for a request that still carries the inherited Expect: nothing to compare
        Outcome::NotCompared(_) => return Ok(()),
    };
    let mut red2 = match term2 {
        Terminal::Redirect(r) => r,
        Terminal::Cleanup(_) => return Err(format!("{}: second hop: redirect state not entered", what)),
    };
    let want2 = table(&m1, status2);
    match (red2.as_new_flow(RedirectAuthHeaders::Never).map_err(|e| format!("{}: second hop: as_new_flow: {:?}", what, e))?, want2) {
        (None, None) => {}
        (Some(n), None) => return Err(format!("{}: second hop followed with {} although the table says it is not followed", what, n.method())),
        (None, Some(m)) => return Err(format!("{}: second hop ({} answered {}) not followed, the table says {}", what, m1, status2, m)),
        (Some(n), Some(m)) => {
            if *n.method() != m {
                return Err(format!("{}: second hop has method {}, the table says {}", what, n.method(), m));
            }
        }
    }
    st.class("second_hop_checked");
    Ok(())
}

const BASES: [u64; 6] = [9, 100, 2, 2, 2, 3];

pub static DEF: PropDef = PropDef {
    id: "C15",
    rule: "exhaustive enumeration: 9 standard methods x every status 300..399 x {Never, SameHost} x response {with, without} body x {with, without} Location x request path {plain, send-body-despite-method, Expect: 100-continue refused by this very response} = 21600 \
cells (despite on body methods skipped); each drives a Flow through the response (and its body) and checks: Redirect entered <=> status != 304, status() equals the \
code, as_new_flow: 307/308 => None for POST/PUT/PATCH/DELETE else same method; other 3xx => HEAD stays HEAD, GET stays GET, others \
become GET; the new flow writes a head carrying that method. enumeration 'variants' (11520 cells, invalid ones skipped): 9 methods x 8 \
statuses x request version 1.0 / 1.1 x Content-Length on the request itself x despite-method x Location {other path, other host, \
the very same URI in absolute / path-absolute / empty form} x second hop {none, 301, 307, 308} whose expected method is the table \
applied to the method the first hop produced. non-trivial = status outside {301,302,307,308} or method outside {GET, \
POST}; distinct by enumeration index.",
    assumptions: &["the method table depends on the method only: it must hold whether or not a body was due or sent"],
    exec,
    enums: &[
        EnumDef {
            name: "table",
            count: |_t: Tier| crate::infra::runner::product(&BASES),
            tape: |_, idx| radix(idx, &BASES),
            exhaustive: true,
            exec: None,
        },
        EnumDef {
            name: "variants",
            count: |_t: Tier| crate::infra::runner::product(&V_BASES),
            tape: |_, idx| radix(idx, &V_BASES),
            exhaustive: true,
            exec: Some(exec_variants),
        },
    ],
    randoms: &[],
    extra: None,
};
