//! C14 — redirect target resolves the last Location against the current URI (RFC 3986).

use serde_json::{json, Value};
use ureq_proto::client::flow::state::Prepare;
use ureq_proto::client::flow::{Flow, RedirectAuthHeaders};
use ureq_proto::http::Request;

use crate::drive::redirect::{exchange, Terminal};
use crate::infra::runner::{EnumDef, PropDef, RandomDef, Tier};
use crate::infra::stats::Stats;
use crate::infra::tape::Tape;
use crate::model::head::parse_request_head;
use crate::model::rfc3986::{parse, resolve, HttpTarget, Parts};

#[derive(Clone, Debug)]
pub struct HopSpec {
    pub status: u16,
    /// Location field values in order; the last one counts. Empty = no Location field at all.
    pub locations: Vec<Vec<u8>>,
    pub same_host_policy: bool,
    /// the last Location belongs to the must-be-error class
    pub must_err: bool,
    /// the caller turns the flow that makes this hop's request into a body-sending one (send_body_despite_method)
    pub despite: bool,
}

#[derive(Clone, Debug)]
pub struct Chain {
    pub start: String,
    pub hops: Vec<HopSpec>,
    /// the original request carries an explicit `Host` header naming the start URI's host (callers that always set Host)
    pub explicit_host: bool,
    /// what the original request looks like (`SHAPES`): its method, whether it has a body, the headers next to Authorization
    pub shape: usize,
}

/// Original requests: (method, Content-Length of its body or None, extra headers). Shape 0 is the plain GET.
pub const SHAPES: [(&str, Option<usize>, &[(&str, &str)]); 7] = [
    ("GET", None, &[]),
    ("GET", None, &[("expect", "100-continue"), ("cookie", "a=1")]),
    ("POST", None, &[("expect", "100-continue"), ("content-type", "text/plain")]),
    ("HEAD", None, &[("cookie", "a=1")]),
    ("PUT", Some(3), &[("cookie", "a=1")]),
    ("OPTIONS", None, &[("expect", "100-continue")]),
    ("DELETE", None, &[]),
];

/// The documented method table (C15), needed here only to know whether a hop is followed at all and with which method.
fn followed_method(m: &str, status: u16) -> Option<&'static str> {
    let keep: &'static str = match m {
        "GET" => "GET",
        "HEAD" => "HEAD",
        "OPTIONS" => "OPTIONS",
        "POST" => "POST",
        "PUT" => "PUT",
        _ => "DELETE",
    };
    if status == 307 || status == 308 {
        if matches!(m, "POST" | "PUT" | "PATCH" | "DELETE") {
            None
        } else {
            Some(keep)
        }
    } else if m == "HEAD" {
        Some("HEAD")
    } else {
        Some("GET")
    }
}

pub fn chain_json(c: &Chain) -> Value {
    json!({
        "start": c.start,
        "original_request_has_explicit_host": c.explicit_host,
        "original_request": {"method": SHAPES[c.shape].0, "content_length": SHAPES[c.shape].1, "headers_next_to_authorization": SHAPES[c.shape].2.iter().map(|(k, v)| format!("{}: {}", k, v)).collect::<Vec<_>>()},
        "hops": c.hops.iter().map(|h| json!({
            "status": h.status,
            "locations": h.locations.iter().map(|l| String::from_utf8_lossy(l).to_string()).collect::<Vec<_>>(),
            "same_host_policy": h.same_host_policy,
            "must_err": h.must_err,
            "despite_method": h.despite,
        })).collect::<Vec<_>>(),
    })
}

pub fn redirect_head(status: u16, locations: &[Vec<u8>]) -> Vec<u8> {
    let mut v = format!("HTTP/1.1 {} R\r\nX-Before: 1\r\n", status).into_bytes();
    for l in locations {
        v.extend_from_slice(b"Location: ");
        v.extend_from_slice(l);
        v.extend_from_slice(b"\r\n");
    }
    v.extend_from_slice(b"Content-Length: 0\r\n\r\n");
    v
}

/// One hop on the real flow: returns the emitted head of `f`, and the result of following the redirect.
pub fn do_hop(f: Flow<(), Prepare>, h: &HopSpec) -> Result<(Vec<u8>, Result<Option<Flow<(), Prepare>>, ureq_proto::Error>), String> {
    do_hop_body(f, h, 0)
}

/// As `do_hop`, for a flow whose request body has `body_len` bytes. An answer other than a new flow is asked for a second
/// time, with the other policy: the answer is about the response, so it is the same (and asking never panics).
pub fn do_hop_body(mut f: Flow<(), Prepare>, h: &HopSpec, body_len: usize) -> Result<(Vec<u8>, Result<Option<Flow<(), Prepare>>, ureq_proto::Error>), String> {
    let head = redirect_head(h.status, &h.locations);
    if h.despite {
        f.send_body_despite_method();
    }
    let (req_head, _, term) = exchange(f, body_len, &head, b"")?;
    let mut red = match term {
        Terminal::Redirect(r) => r,
        Terminal::Cleanup(_) => return Err(format!("status {} did not reach the redirect state", h.status)),
    };
    let policy = if h.same_host_policy { RedirectAuthHeaders::SameHost } else { RedirectAuthHeaders::Never };
    let r = red.as_new_flow(policy);
    if !matches!(r, Ok(Some(_))) {
        let other = if h.same_host_policy { RedirectAuthHeaders::Never } else { RedirectAuthHeaders::SameHost };
        let again = red.as_new_flow(other);
        match (&r, &again) {
            (Err(_), Err(_)) | (Ok(None), Ok(None)) => {}
            _ => {
                let kind = |x: &Result<Option<Flow<(), Prepare>>, ureq_proto::Error>| match x {
                    Err(_) => "an error",
                    Ok(None) => "'not followed'",
                    Ok(Some(_)) => "a new flow",
                };
                return Err(format!("as_new_flow answered {} and, asked again, {}", kind(&r), kind(&again)));
            }
        }
    }
    // the redirect state stays usable after the attempt
    let _ = red.status();
    let _ = red.must_close_connection();
    let _ = red.proceed();
    Ok((req_head, r))
}

fn check_head_against(target: &HttpTarget, req_head: &[u8], what: &str) -> Result<(), String> {
    let h = parse_request_head(req_head).map_err(|e| format!("{}: emitted head invalid: {}", what, e))?;
    if h.target != target.path_and_query() {
        return Err(format!("{}: request line carries {:?}, the resolved URI has {:?}", what, h.target, target.path_and_query()));
    }
    let hosts = h.values("host");
    if hosts.len() != 1 || hosts[0] != target.host.as_bytes() {
        return Err(format!("{}: Host is {:?}, the resolved URI's host is {:?}", what, hosts.iter().map(|v| String::from_utf8_lossy(v).to_string()).collect::<Vec<_>>(), target.host));
    }
    Ok(())
}

pub fn run_chain(c: &Chain, st: &mut Stats) -> Result<(), String> {
    let start_uri: ureq_proto::http::Uri = c.start.parse().map_err(|e| format!("start URI {:?}: {}", c.start, e))?;
    let mut cur: Parts = parse(&c.start);
    let mut cur_target = HttpTarget::from_parts(&cur).ok_or("start URI is not http(s)")?;
    let (m0, body0, extra) = SHAPES[c.shape];
    let mut b = Request::builder().method(m0).uri(start_uri).header("authorization", "Basic abc");
    for (k, v) in extra {
        b = b.header(*k, *v);
    }
    if let Some(n) = body0 {
        b = b.header("content-length", n.to_string());
    }
    if c.shape != 0 {
        st.class("original_request_other_than_plain_get");
    }
    let mut method: &str = m0;
    if c.explicit_host {
        // the Host clause speaks about every followed request: an explicit Host written for the first URI must not travel to
        // another host
        b = b.header("host", cur_target.host.as_str());
        st.class("original_request_with_explicit_host");
    }
    let req = b.body(()).map_err(|e| e.to_string())?;
    let mut f = Flow::new(req).map_err(|e| format!("Flow::new: {:?}", e))?;
    let mut nontrivial = false;
    for (i, h) in c.hops.iter().enumerate() {
        st.evals(1);
        let what = format!("hop {} (status {}, Location {:?} against {})", i, h.status, h.locations.last().map(|l| String::from_utf8_lossy(l).to_string()), cur_target.to_uri_string());
        let body_len = if i == 0 { body0.unwrap_or(0) } else { 0 };
        let (req_head, res) = do_hop_body(f, h, body_len).map_err(|e| format!("{}: {}", what, e))?;
        let follow = followed_method(method, h.status);
        // the request that was just made must itself correspond to the current URI
        check_head_against(&cur_target, &req_head, &format!("request of hop {}", i))?;
        if h.must_err || h.locations.is_empty() {
            match res {
                Err(_) => {
                    st.class("error_class_rejected");
                    nontrivial = true;
                    break;
                }
                Ok(Some(nf)) => return Err(format!("{}: unresolvable Location produced a request to {}", what, nf.uri())),
                // a redirect that the method table does not follow anyway: error or 'not followed', either is an honest answer
                Ok(None) if follow.is_none() => {
                    st.class("error_class_on_a_hop_not_followed_anyway");
                    break;
                }
                Ok(None) => return Err(format!("{}: unresolvable Location reported as 'not followed' instead of an error", what)),
            }
        }
        let loc = String::from_utf8(h.locations.last().unwrap().clone()).map_err(|_| "generator: valid class must be UTF-8")?;
        let r = parse(&loc);
        let resolved = resolve(&cur, &r);
        let target = HttpTarget::from_parts(&resolved).ok_or_else(|| format!("generator produced a non-http target: {}", loc))?;
        let nf = match res {
            Ok(Some(nf)) if follow.is_none() => return Err(format!("{}: a {} redirect of {} is followed (to {})", what, h.status, method, nf.uri())),
            Ok(Some(nf)) => nf,
            Ok(None) if follow.is_none() => {
                st.class("not_followed_by_the_method_table");
                break;
            }
            Ok(None) => return Err(format!("{}: {} redirect of {} not followed", what, h.status, method)),
            Err(e) => return Err(format!("{}: resolvable Location rejected: {:?}", what, e)),
        };
        let got = nf.uri().to_string();
        let got_t = HttpTarget::from_parts(&parse(&got)).ok_or_else(|| format!("{}: new URI {:?} is not an http(s) URI", what, got))?;
        if got_t != target {
            return Err(format!("{}: new flow has URI {} but RFC 3986 resolution gives {}", what, got, target.to_uri_string()));
        }
        if parse(&got).fragment.is_some() {
            return Err(format!("{}: fragment kept in {}", what, got));
        }
        let has_dots = r.path.split('/').any(|s| s == "." || s == "..");
        let relative = r.scheme.is_none() && r.authority.is_none();
        if (i >= 1 && relative) || has_dots || h.locations.len() > 1 {
            nontrivial = true;
        }
        if relative {
            st.class(if r.path.is_empty() { "ref_query_or_empty" } else if r.path.starts_with('/') { "ref_path_absolute" } else { "ref_path_relative" });
        } else if r.scheme.is_none() {
            st.class("ref_scheme_relative");
        } else {
            st.class("ref_absolute");
        }
        if has_dots {
            st.class("ref_with_dot_segments");
        }
        if h.locations.len() > 1 {
            st.class("several_location_fields");
        }
        cur_target = target;
        cur = cur_target.to_parts();
        method = follow.unwrap();
        f = nf;
        if i + 1 == c.hops.len() {
            // the last flow's head, too
            let mut sr = f.proceed();
            let hd = crate::drive::redirect::write_head_ample(&mut sr)?;
            check_head_against(&cur_target, &hd, "request after the last hop")?;
            break;
        }
    }
    if nontrivial {
        st.nontrivial(st.case_digest);
        if st.wants_sample() && c.hops.len() >= 2 {
            st.sample(chain_json(c));
        }
    }
    Ok(())
}

// ---------------------------------------------------------------------------------------------
// generator (domain restrictions: DESIGN section 7, C14 "FA")

const SEG_CHARS: &[u8] = b"abcxyz019-._~;=,&";
const QUERY_CHARS: &[u8] = b"abc019-._~;=,&/?:@";

fn seg(t: &mut Tape) -> String {
    let n = t.range(1, 4);
    let s: String = (0..n).map(|_| *t.pick(SEG_CHARS) as char).collect();
    if s == "." || s == ".." {
        "a".into()
    } else {
        s
    }
}

/// relative path material with '.', '..' and empty segments in every position
fn gen_path_rel(t: &mut Tape) -> String {
    let n = t.below(5);
    let mut parts = vec![];
    for _ in 0..n {
        parts.push(match t.weighted(&[3, 1, 1, 1]) {
            0 => seg(t),
            1 => ".".to_string(),
            2 => "..".to_string(),
            _ => String::new(),
        });
    }
    let mut s = parts.join("/");
    if t.chance(30) {
        s.push('/');
    }
    s
}

fn gen_path_plain(t: &mut Tape) -> String {
    let n = t.below(4);
    let parts: Vec<String> = (0..n).map(|_| seg(t)).collect();
    let mut s = parts.join("/");
    if n > 0 && t.chance(30) {
        s.push('/');
    }
    s
}

fn gen_query(t: &mut Tape) -> String {
    let n = t.below(6);
    (0..n).map(|_| *t.pick(QUERY_CHARS) as char).collect()
}

pub fn gen_host(t: &mut Tape) -> String {
    let h = *t.pick(&["a.test", "b.test", "c.test", "A.Test", "sub.b.test"]);
    match t.weighted(&[3, 1, 1, 1]) {
        0 => h.to_string(),
        1 => format!("{}:80", h),
        2 => format!("{}:443", h),
        _ => format!("{}:8080", h),
    }
}

pub fn gen_location(t: &mut Tape) -> String {
    let mut s = match t.weighted(&[2, 1, 1, 3, 1]) {
        0 => {
            let scheme = *t.pick(&["http", "https", "HTTP"]);
            let host = gen_host(t);
            let p = if t.chance(70) { format!("/{}", gen_path_rel(t)) } else { String::new() };
            format!("{}://{}{}", scheme, host, p)
        }
        1 => {
            let host = gen_host(t);
            let p = if t.chance(70) { format!("/{}", gen_path_rel(t)) } else { String::new() };
            format!("//{}{}", host, p)
        }
        2 => {
            let mut p = gen_path_rel(t);
            while p.starts_with('/') {
                p.remove(0);
            }
            format!("/{}", p)
        }
        3 => {
            let mut p = gen_path_rel(t);
            while p.starts_with('/') {
                p.remove(0);
            }
            if p.split('/').next().map(|f| f.contains(':')).unwrap_or(false) {
                format!("./{}", p)
            } else {
                p
            }
        }
        _ => String::new(),
    };
    if t.chance(40) {
        s.push('?');
        s.push_str(&gen_query(t));
    }
    if t.chance(25) {
        s.push('#');
        s.push_str(&seg(t));
    }
    s
}

pub const ERROR_LOCATIONS: [&[u8]; 10] = [
    b"/p\xff",
    b"http://a.test/\xe9t\xe9",
    b"http://[::1/x",
    b"http://a.test:99999/x",
    b"http://a.test:8x/",
    b"http://",
    b"//",
    b"https://",
    b"//b.test:65536/",
    b"\xff",
];

fn gen_start(t: &mut Tape) -> String {
    let scheme = *t.pick(&["http", "https"]);
    let host = *t.pick(&["a.test", "a.test:8080", "b.test", "b.test:443"]);
    let path = gen_path_plain(t);
    let q = if t.chance(40) { format!("?{}", gen_query(t)) } else { String::new() };
    format!("{}://{}/{}{}", scheme, host, path, q)
}

fn exec_random(t: &mut Tape, st: &mut Stats) -> Result<(), String> {
    let start = gen_start(t);
    let nh = t.range(1, 4);
    let mut hops = vec![];
    // the generator follows the chain with the reference model so that it can aim at the current URI itself
    let mut cur_model: Option<HttpTarget> = HttpTarget::from_parts(&parse(&start));
    for _ in 0..nh {
        let status = *t.pick(&[302u16, 301, 303, 307, 308, 300, 305, 399]);
        let nloc = t.weighted(&[8, 3, 2, 1, 1]) + 1;
        let mut locations: Vec<Vec<u8>> = vec![];
        for k in 0..nloc {
            if k + 1 < nloc && t.chance(30) {
                // an earlier field may be garbage: only the last one counts
                locations.push(t.pick(&ERROR_LOCATIONS).to_vec());
            } else if k + 1 == nloc && t.chance(8) && cur_model.is_some() {
                // the absolute spelling of the URI that was just requested (a redirect to itself)
                let mut s = cur_model.as_ref().unwrap().to_uri_string();
                if t.chance(30) {
                    s.push_str("#frag");
                }
                locations.push(s.into_bytes());
            } else {
                locations.push(gen_location(t).into_bytes());
            }
        }
        let must_err = t.chance(6);
        if must_err {
            if t.chance(25) {
                locations.clear();
            } else {
                let e = t.pick(&ERROR_LOCATIONS).to_vec();
                locations.push(e);
            }
        }
        if !must_err {
            if let (Some(cm), Some(last)) = (&cur_model, locations.last()) {
                if let Ok(l) = std::str::from_utf8(last) {
                    cur_model = HttpTarget::from_parts(&resolve(&cm.to_parts(), &parse(l)));
                }
            }
        }
        hops.push(HopSpec { status, locations, same_host_policy: t.bool(), must_err, despite: t.chance(12) });
    }
    st.case_digest = t.digest();
    let explicit_host = t.chance(15);
    let shape = t.weighted(&[10, 2, 2, 1, 2, 1, 1]);
    let c = Chain { start, hops, explicit_host, shape };
    st.describe(|| chain_json(&c));
    run_chain(&c, st)
}

const RFC_BASES: [&str; 3] = ["http://a/b/c/d;p?q", "https://a.test:8443/b/c/d;p?q", "http://a.test"];
const RFC_REFS: [&str; 44] = [
    "g", "./g", "g/", "/g", "//g", "?y", "g?y", "#s", "g#s", "g?y#s", ";x", "g;x", "g;x?y#s", "", ".", "./", "..", "../", "../g", "../..",
    "../../", "../../g", "../../../g", "../../../../g", "/./g", "/../g", "g.", ".g", "g..", "..g", "./../g", "./g/.", "g/./h", "g/../h",
    "g;x=1/./y", "g;x=1/../y", "g?y/./x", "g?y/../x", "g#s/./x", "g#s/../x", "http://b.test/x/../y", "//b.test:80/./", "?", "#",
];

/// Fixed tables: RFC 3986 5.4 examples against three bases, also as the second hop of a chain.
fn exec_table(t: &mut Tape, st: &mut Stats) -> Result<(), String> {
    let base = RFC_BASES[t.below(3)];
    let r = RFC_REFS[t.below(44)];
    let as_second_hop = t.below(2) == 1;
    st.case_digest = t.digest();
    let mut hops = vec![];
    let start = if as_second_hop {
        hops.push(HopSpec { status: 302, locations: vec![base.as_bytes().to_vec()], same_host_policy: false, must_err: false, despite: false });
        "http://start.test/s/t?u".to_string()
    } else {
        base.to_string()
    };
    hops.push(HopSpec { status: 307, locations: vec![r.as_bytes().to_vec()], same_host_policy: true, must_err: false, despite: false });
    let explicit_host = as_second_hop && r.len() % 2 == 0;
    // as a second hop the chain starts from every shape of original request in turn (the first hop is a 302: all are followed)
    let shape = if as_second_hop { (r.len() + base.len()) % SHAPES.len() } else { 0 };
    let c = Chain { start, hops, explicit_host, shape };
    st.describe(|| chain_json(&c));
    st.class("rfc_5_4_table");
    run_chain(&c, st)
}

/// Every error-class Location, alone and after a valid earlier Location field, on hop 1 and hop 2.
fn exec_errors(t: &mut Tape, st: &mut Stats) -> Result<(), String> {
    let e = t.below(ERROR_LOCATIONS.len() + 1);
    let preceded = t.below(2) == 1;
    let second = t.below(2) == 1;
    st.case_digest = t.digest();
    let mut hops = vec![];
    if second {
        hops.push(HopSpec { status: 301, locations: vec![b"/first/hop".to_vec()], same_host_policy: false, must_err: false, despite: false });
    }
    let mut locations = vec![];
    if e < ERROR_LOCATIONS.len() {
        if preceded {
            locations.push(b"/valid".to_vec());
        }
        locations.push(ERROR_LOCATIONS[e].to_vec());
    }
    hops.push(HopSpec { status: 302, locations, same_host_policy: false, must_err: true, despite: false });
    let c = Chain { start: "http://a.test/x/y".into(), hops, explicit_host: false, shape: if preceded { e % SHAPES.len() } else { 0 } };
    st.describe(|| chain_json(&c));
    run_chain(&c, st)
}

pub static DEF: PropDef = PropDef {
    id: "C14",
    rule: "random chains of 1..4 redirects from a dot-segment-free http/https start URI; Locations over unreserved characters plus ; = & , : \
absolute http/https/HTTP with and without default / non-default ports and mixed-case hosts, scheme-relative, path-absolute, \
path-relative with '.', '..' and empty segments in every position, query-only, empty, the absolute spelling of the URI just requested (8 %), optional fragments; 1..5 Location fields per \
response (earlier ones possibly garbage, the last one counts); 6 % of hops carry a must-be-error Location (missing, obs-text / non-UTF-8, \
unclosed '[', port > 65535 or non-numeric, empty authority). 12 % of the flows are turned into body-sending ones (send_body_despite_method) before their request is made. \
The original request is the plain GET with Authorization in 10 cases of 19; otherwise one of six other shapes (GET or OPTIONS with Expect: 100-continue and a cookie, chunked POST with Expect, HEAD, \
PUT with Content-Length 3, DELETE), whose bodies are sent; the method is tracked with the documented table only to know whether a hop is followed at all \
(307/308 of POST/PUT/DELETE: 'not followed' ends the chain). An answer other than a new flow is asked for again with the other policy: same kind of answer, no panic. \
Oracle: Flow<Prepare>::uri() of the followed flow equals the RFC 3986 5.2 \
reference resolution (model/rfc3986.rs, validated on the RFC 5.4 tables) of the last Location against the URI of the request just made, \
compared component-wise after the http normalisations (case, default port, empty path, dot segments), without fragment; the request \
head written by every flow of the chain carries that URI's path-and-query and host; error class => Err (never Ok, never a panic). \
enumerations: the RFC 5.4 normal and abnormal examples against three bases, as first and as second hop; every error-class value alone / \
after a valid field / on hop 1 and 2. non-trivial = hop >= 2 with a relative reference, a reference with dot segments, several Location \
fields, or an error-class hop; distinct by decoded-choice digest.",
    assumptions: &[
        "domain restrictions of DESIGN section 7 (C14, FA): no backslashes, spaces, percent-encoded dots, userinfo, IP literals, scheme without slashes",
        "the start URI is dot-segment free; path-absolute references do not start with '//'",
        "comparison is modulo remove_dot_segments and http scheme normalisation (RFC 3986 6.2.2/6.2.3)",
    ],
    exec: exec_random,
    enums: &[
        EnumDef {
            name: "rfc_tables",
            count: |_t: Tier| 3 * 44 * 2,
            tape: |_, idx| crate::infra::runner::radix(idx, &[3, 44, 2]),
            exhaustive: true,
            exec: Some(exec_table),
        },
        EnumDef {
            name: "error_class",
            count: |_t: Tier| (ERROR_LOCATIONS.len() as u64 + 1) * 4,
            tape: |_, idx| crate::infra::runner::radix(idx, &[ERROR_LOCATIONS.len() as u64 + 1, 2, 2]),
            exhaustive: true,
            exec: Some(exec_errors),
        },
    ],
    randoms: &[RandomDef {
        name: "chains",
        cases: |t: Tier| t.pick(1_200_000, 40_000_000),
        tape_len: 200,
        exec: None,
    }],
    extra: None,
};
