//! C10 — connection-reuse verdict is exactly the disjunction of the close conditions.

use serde_json::json;
use ureq_proto::http::Method;

use crate::drive::exchange::{check_against_truth, run_exchange, AwaitMode, ExchangeSpec, Outcome, ReqConn, ReqFraming, RespSpec, Sched, ServerPre, Terminal};
use crate::drive::exgen::{gen_exchange, no_body_clause, spec_json};
use crate::drive::recv::{needs_body, METHODS};
use crate::infra::runner::{radix, EnumDef, PropDef, RandomDef, Tier};
use crate::infra::stats::Stats;
use crate::infra::tape::Tape;
use crate::model::head::{Field, RespHead};

use crate::drive::reasons::classify;

/// Run one exchange to its terminal state(s) and check the verdict clauses.
fn check_verdict(spec: &ExchangeSpec, s: &mut Sched, st: &mut Stats) -> Result<(), String> {
    let stream = spec.stream();
    let (obs, term) = match run_exchange(spec, None, &stream, s)? {
        Outcome::Done(o, t) => (o, t),
        Outcome::Premature(_) => return Err("harness: premature".into()),
        Outcome::NotCompared(why) => {
            st.class(why);
            return Ok(());
        }
    };
    st.evals(1);
    check_against_truth(spec, &obs, true, stream.len())?;
    let conds = spec.close_conditions();
    let any = conds.iter().any(|c| *c);
    // Redirect and Cleanup must agree
    let (mc2, reason2) = match term {
        Terminal::Redirect(mut r) => {
            // second hop: the request-side conditions (HTTP/1.0, Connection: close) travel with the request
            let has_location = spec.resp.head.fields.iter().any(|f| f.lname() == "location");
            let own_te = spec.body_due() && spec.req_framing == ReqFraming::Te;
            if has_location && !own_te {
                if let Ok(Some(nf)) = r.as_new_flow(ureq_proto::client::flow::RedirectAuthHeaders::Never) {
                    let m2 = nf.method().clone();
                    let nobody2 = no_body_clause(&m2, 200);
                    // a request sent with send-body-despite-method and repeated by a 307/308: whether the followed flow remembers the
                    // caller's wish is not stated; the caller states it again, so a body is due either way
                    let carried_despite = spec.despite && !crate::drive::recv::needs_body(&spec.method) && matches!(spec.resp.head.status, 307 | 308);
                    let spec2 = ExchangeSpec {
                        method: m2,
                        req_v10: spec.req_v10,
                        uri: String::new(),
                        req_conn: spec.req_conn,
                        expect: spec.expect,
                        despite: carried_despite,
                        req_framing: ReqFraming::Auto,
                        extra_headers: vec![],
                        body: vec![],
                        await_mode: AwaitMode::NeverLook,
                        server_pre: ServerPre::Silent,
                        resp: RespSpec {
                            head: RespHead::simple(200, vec![Field::new("Content-Length", "2")]),
                            body_wire: if nobody2 { vec![] } else { b"ok".to_vec() },
                            payload: if nobody2 { vec![] } else { b"ok".to_vec() },
                            close_delimited: false,
                        },
                        prep: 0,
                    };
                    let stream2 = spec2.stream();
                    match run_exchange(&spec2, Some(nf), &stream2, &mut Sched::canonical()).map_err(|e| format!("second hop: {}", e))? {
                        Outcome::Done(o2, _) => {
                            check_against_truth(&spec2, &o2, true, stream2.len()).map_err(|e| format!("second hop: {}", e))?;
                            st.class("second_hop_verdict_checked");
                            st.evals(1);
                        }
                        Outcome::Premature(_) => return Err("harness: premature".into()),
                        Outcome::NotCompared(why) => st.class(why),
                    }
                }
            }
            let c = r.proceed();
            (c.must_close_connection(), c.close_reason())
        }
        Terminal::Cleanup(c) => (c.must_close_connection(), c.close_reason()),
    };
    if mc2 != obs.must_close || reason2 != obs.reason {
        return Err(format!("Redirect says must_close = {} ({:?}) but the Cleanup state after it says {} ({:?})", obs.must_close, obs.reason, mc2, reason2));
    }
    if obs.must_close != any {
        return Err(format!("must_close_connection() = {} but the close conditions are {:?}", obs.must_close, conds));
    }
    match (obs.reason, any) {
        (None, false) => {}
        (Some(r), true) => match classify(r) {
            Some(i) => {
                if !conds[i] {
                    return Err(format!("close reason {:?} names a condition that does not hold (conditions {:?})", r, conds));
                }
            }
            None => st.class("reason_text_unclassified"),
        },
        (r, a) => return Err(format!("close_reason() = {:?} while must-close = {}", r, a)),
    }
    let n = conds.iter().filter(|c| **c).count();
    st.class(match n {
        0 => "reusable",
        1 => "one_condition",
        2 => "two_conditions",
        3 => "three_conditions",
        4 => "four_conditions",
        _ => "five_conditions",
    });
    if spec.expect_redirect() {
        st.class("redirect_path");
    }
    if n >= 2 || (n == 1 && spec.expect_redirect()) {
        st.count_nontrivial(1);
        if st.wants_sample() && n >= 3 {
            st.sample(json!({"conditions_http10_clientclose_serverclose_not100_closedelimited": conds, "reason": obs.reason, "exchange": spec_json(spec)}));
        }
    }
    Ok(())
}

const STATUSES: [u16; 7] = [200, 204, 304, 301, 404, 500, 101];
const BASES: [u64; 8] = [2, 4, 9, 6, 2, 7, 4, 6];

fn exec_product(t: &mut Tape, st: &mut Stats) -> Result<(), String> {
    let req_v10 = t.below(2) == 1;
    let req_conn = [ReqConn::Absent, ReqConn::Close, ReqConn::KeepAlive, ReqConn::KeepAliveThenClose][t.below(4)];
    let method = METHODS[t.below(9)].clone();
    let outcome = t.below(6); // 0 none, 1 100 seen, 2 timeout, 3 refused bare, 4 refused with fields, 5 late 100
    let resp_v11 = t.below(2) == 0;
    let status = STATUSES[t.below(7)];
    let framing = t.below(4); // 0 CL n, 1 CL 0, 2 chunked, 3 none
    let rconn = t.below(6);
    if req_v10 && ![Method::GET, Method::HEAD, Method::POST].contains(&method) {
        st.class("skipped_invalid_method_version");
        return Ok(());
    }
    if framing == 2 && !resp_v11 && (300..400).contains(&status) {
        // a 3xx whose only framing field does not frame: body or no body is left open (C06)
        st.class("skipped_chunked_on_http10_redirect");
        return Ok(());
    }
    let expect = outcome != 0;
    let despite = expect && !needs_body(&method);
    let (await_mode, server_pre) = match outcome {
        0 => (AwaitMode::NeverLook, ServerPre::Silent),
        1 => (AwaitMode::Look, ServerPre::Continue(b"HTTP/1.1 100 Continue\r\n\r\n".to_vec())),
        2 => (AwaitMode::Look, ServerPre::Silent),
        3 | 4 => (AwaitMode::Look, ServerPre::Refuse),
        _ => (AwaitMode::NeverLook, ServerPre::Continue(b"HTTP/1.1 100 Continue\r\n\r\n".to_vec())),
    };
    let mut fields: Vec<Field> = vec![];
    let mut body_wire = vec![];
    let mut payload = vec![];
    let mut close_delimited = false;
    let bare = outcome == 3;
    if !bare {
        fields.push(Field::new("X-A", "1"));
        if status == 301 {
            fields.push(Field::new("Location", "/moved"));
        }
        match rconn {
            0 => {}
            1 => fields.push(Field::new("Connection", "close")),
            2 => fields.push(Field::new("Connection", "keep-alive")),
            3 => {
                fields.push(Field::new("Connection", "keep-alive"));
                fields.push(Field::new("connection", "close"));
            }
            4 => {
                fields.push(Field::new("connection", "close"));
                fields.push(Field::new("Connection", "keep-alive"));
            }
            _ => fields.push(Field::new("Connection", "upgrade")),
        }
    }
    let nobody = no_body_clause(&method, status);
    let fr = if bare { 3 } else { framing };
    match fr {
        0 => {
            fields.push(Field::new("Content-Length", "5"));
            if !nobody {
                payload = b"hello".to_vec();
                body_wire = payload.clone();
            }
        }
        1 => fields.push(Field::new("Content-Length", "0")),
        2 => {
            fields.push(Field::new("Transfer-Encoding", "chunked"));
            if !nobody && resp_v11 {
                payload = b"hello".to_vec();
                body_wire = b"5\r\nhello\r\n0\r\n\r\n".to_vec();
            } else if !nobody {
                // HTTP/1.0 knows no transfer codings: the body is whatever follows until the connection closes - the fifth condition
                st.class("chunked_declared_on_an_http10_response");
                body_wire = b"5\r\nhello\r\n0\r\n\r\n".to_vec();
                payload = body_wire.clone();
                close_delimited = true;
            }
        }
        _ => {
            // no framing header: close-delimited unless a no-body clause or the redirect exception applies
            if !nobody && !(300..400).contains(&status) {
                payload = b"until close".to_vec();
                body_wire = payload.clone();
                close_delimited = true;
            }
        }
    }
    let spec = ExchangeSpec {
        method,
        req_v10,
        uri: "http://h.test/p".into(),
        req_conn,
        expect,
        despite,
        req_framing: if (req_v10 as usize + outcome) % 2 == 0 { ReqFraming::Cl } else { ReqFraming::Auto },
        extra_headers: vec![],
        body: b"body!".to_vec(),
        await_mode,
        server_pre,
        resp: RespSpec { head: RespHead { v11: resp_v11, status, reason: Some(b"R".to_vec()), fields }, body_wire, payload, close_delimited },
        prep: 0,
    };
    st.describe(|| spec_json(&spec));
    check_verdict(&spec, &mut Sched::canonical(), st)
}

/// Stage 'truncated': the statement's last sentence - a connection whose message boundaries were lost is never offered for
/// reuse. The only way the library loses a boundary on well-formed input is known finding K1 (a 3xx head accepted from a
/// strict prefix once its Location line is complete). Whenever a flow hands out a response for a strict prefix of a head,
/// the verdict that follows must be must-close, whatever Connection field the truncated head carries.
fn exec_truncated(t: &mut Tape, st: &mut Stats) -> Result<(), String> {
    use ureq_proto::client::flow::{RecvBodyResult, RecvResponseResult};
    let status = [301u16, 302, 303, 307, 308, 300][t.below(6)];
    let conn = t.below(5); // 0 none, 1 keep-alive before Location, 2 keep-alive after, 3 upgrade before, 4 close before
    let extra = t.below(3); // 0 nothing, 1 Set-Cookie after, 2 Content-Length: 0 after
    let cut_sel = t.below(4);
    st.evals(1);
    let mut lines: Vec<String> = vec![format!("HTTP/1.1 {} Moved\r\n", status)];
    match conn {
        1 => lines.push("Connection: keep-alive\r\n".into()),
        3 => lines.push("Connection: upgrade\r\n".into()),
        4 => lines.push("Connection: close\r\n".into()),
        _ => {}
    }
    lines.push("Location: /next\r\n".into());
    let after_loc: usize = lines.iter().map(|l| l.len()).sum();
    if conn == 2 {
        lines.push("connection: keep-alive\r\n".into());
    }
    match extra {
        1 => lines.push("Set-Cookie: a=b\r\n".into()),
        2 => lines.push("Content-Length: 0\r\n".into()),
        _ => {}
    }
    let head: String = lines.concat() + "\r\n";
    let full = head.len();
    // cut: right after the Location line, at the end of the last field line, one byte into a later line, one byte short
    let cut = match cut_sel {
        0 => after_loc,
        1 => full - 2,
        2 => (after_loc + 1).min(full - 1),
        _ => full - 1,
    };
    st.describe(|| json!({"stage": "truncated", "head": head, "cut": cut}));
    let mut f = crate::drive::recv::flow_recv(&Method::GET, false, &[])?;
    let (n, resp) = f.try_response(&head.as_bytes()[..cut]).map_err(|e| format!("truncated head: {:?}", e))?;
    if resp.is_none() {
        st.class("truncated_not_accepted");
        return Ok(());
    }
    st.class("truncated_accepted_k1");
    let what = format!("3xx head accepted from its first {} of {} bytes ({} consumed): {:?}", cut, full, n, &head[..cut]);
    let (mc, reason, mc2) = match f.proceed().ok_or("cannot proceed after an accepted response")? {
        RecvResponseResult::Redirect(r) => {
            let (a, b) = (r.must_close_connection(), r.close_reason());
            let c = r.proceed();
            (a, b, c.must_close_connection())
        }
        RecvResponseResult::Cleanup(c) => (c.must_close_connection(), c.close_reason(), c.must_close_connection()),
        RecvResponseResult::RecvBody(b) => match b.proceed() {
            Some(RecvBodyResult::Redirect(r)) => (r.must_close_connection(), r.close_reason(), r.must_close_connection()),
            Some(RecvBodyResult::Cleanup(c)) => (c.must_close_connection(), c.close_reason(), c.must_close_connection()),
            None => {
                st.class("truncated_body_pending");
                return Ok(());
            }
        },
    };
    if !mc || !mc2 || reason.is_none() {
        return Err(format!("{}: message boundary lost, but the connection is offered for reuse (must_close = {} / {}, reason {:?})", what, mc, mc2, reason));
    }
    st.count_nontrivial(1);
    Ok(())
}

/// Stage 'interim': one to three bare 100 responses arrive before the final one (a server may send several interim
/// responses). With Expect the first is skipped; any further one is handed out as a response on which the flow cannot
/// advance, so the caller asks again. The verdict must be that of the exchange: request version, request Connection and the
/// FINAL response's Connection field.
fn exec_interim(t: &mut Tape, st: &mut Stats) -> Result<(), String> {
    use ureq_proto::client::flow::RecvResponseResult;
    let k = 1 + t.below(3);
    let with_expect = t.below(2) == 1;
    let req_v10 = t.below(2) == 1;
    let req_close = t.below(2) == 1;
    let resp_conn = t.below(3); // 0 absent, 1 close, 2 keep-alive
    let status = [200u16, 404, 301][t.below(3)];
    let one_piece = t.below(2) == 1;
    st.evals(1);
    let mut extra: Vec<(&str, &str)> = vec![];
    if with_expect {
        extra.push(("expect", "100-continue"));
    }
    if req_close {
        extra.push(("connection", "close"));
    }
    let method = if with_expect { Method::POST } else { Method::GET };
    let mut f = crate::drive::recv::flow_recv(&method, req_v10, &extra)?;
    let mut server: Vec<u8> = vec![];
    for _ in 0..k {
        server.extend_from_slice(b"HTTP/1.1 100 Continue\r\n\r\n");
    }
    let conn = match resp_conn {
        1 => "Connection: close\r\n",
        2 => "Connection: keep-alive\r\n",
        _ => "",
    };
    let loc = if status == 301 { "Location: /n\r\n" } else { "" };
    server.extend_from_slice(format!("HTTP/1.1 {} F\r\n{}{}Content-Length: 0\r\n\r\n", status, conn, loc).as_bytes());
    let what = format!("{} interim 100(s), expect = {}, request 1.{} close = {}, final {} with Connection {:?}", k, with_expect, if req_v10 { 0 } else { 1 }, req_close, status, conn.trim());
    st.describe(|| json!({"stage": "interim", "case": what}));
    // the caller re-presents unconsumed bytes and asks until the flow can advance
    let mut consumed = 0usize;
    let mut arrived = if one_piece { server.len() } else { 0 };
    let mut handed_out = 0;
    let mut guard = 0;
    while !f.can_proceed() {
        guard += 1;
        if guard > 400 {
            return Err(format!("{}: the final response is never accepted", what));
        }
        if !one_piece {
            arrived = (arrived + 7).min(server.len());
            // a 3xx head is not cut inside known finding K1's window (after its Location line): it arrives whole
            if status == 301 && arrived > 25 * k {
                arrived = server.len();
            }
        }
        let (n, r) = f.try_response(&server[consumed..arrived]).map_err(|e| format!("{}: try_response: {:?}", what, e))?;
        consumed += n;
        if r.is_some() {
            handed_out += 1;
        }
    }
    if consumed != server.len() {
        return Err(format!("{}: {} of {} server bytes consumed", what, consumed, server.len()));
    }
    let _ = handed_out;
    let want_close = req_v10 || req_close || resp_conn == 1;
    let (mc, reason) = match f.proceed().ok_or("cannot proceed")? {
        RecvResponseResult::Redirect(r) => (r.must_close_connection(), r.close_reason()),
        RecvResponseResult::Cleanup(c) => (c.must_close_connection(), c.close_reason()),
        RecvResponseResult::RecvBody(_) => return Err(format!("{}: body state for Content-Length: 0", what)),
    };
    if mc != want_close || reason.is_some() != want_close {
        return Err(format!("{}: must_close_connection() = {} (reason {:?}), the close conditions say {}", what, mc, reason, want_close));
    }
    st.class("interim_responses");
    st.count_nontrivial(1);
    Ok(())
}

fn exec_random(t: &mut Tape, st: &mut Stats) -> Result<(), String> {
    let spec = gen_exchange(t, true);
    st.describe(|| spec_json(&spec));
    let mut s = Sched::from_tape(t);
    let r = check_verdict(&spec, &mut s, st);
    let moved = s.k1_moved;
    st.excluded(moved);
    r
}

pub static DEF: PropDef = PropDef {
    id: "C10",
    rule: "exhaustive product 'product': request version {1.1, 1.0} x request Connection {absent, close, keep-alive, [keep-alive, close]} x 9 \
methods x Expect outcome {none, 100 received, timeout, refused by a bare response, refused with fields, late 100} x response version x \
status {200, 204, 304, 301 + Location, 404, 500, 101} x framing {Content-Length 5, Content-Length 0, chunked, none} x response Connection \
{absent, close, keep-alive, [keep-alive, close], [close, keep-alive], upgrade} = 145152 cells (invalid method/version pairs skipped and counted; `Transfer-Encoding: chunked` on an HTTP/1.0 response does not frame - the body is close-delimited, the fifth condition holds; only on a 3xx, where the statement leaves body or no body open, the cell is skipped), each run to Redirect and/or Cleanup. enumeration 'truncated': 3xx heads with a Connection field {none, keep-alive before / after Location, upgrade, close} \
and a further field, cut after the Location line / before the empty line / inside a later line / one byte short (360 cells): \
whenever the flow hands out a response for such a strict prefix (known finding K1) the verdict must be must-close. enumeration 'interim' (432 cells): \
1..3 bare 100 responses before the final one, with and without Expect, in one piece or in 7-byte steps; the caller asks until the \
flow can advance; the verdict must be that of the final response. random 'decorated': C01's exchange generator under generated schedules. Oracle: must_close_connection() <=> disjunction of the five conditions evaluated on the cell; Redirect and the Cleanup state \
after it agree; close_reason() is Some <=> must-close; its text, classified by keyword (1.0 / client / server / 100 / delimited), names a \
condition that holds (unclassifiable text is counted, not failed); plus the complete ground-truth check of the exchange; a redirect with a Location is followed and the second hop's verdict is \
checked the same way (the request-side conditions travel with the request). non-trivial = \
>= 2 conditions true, or exactly one on the redirect path; distinct by enumeration index.",
    assumptions: &["Connection values are whole lower-case tokens in 0..2 fields (DESIGN 5.3)"],
    exec: exec_product,
    enums: &[
        EnumDef {
            name: "product",
            count: |_t: Tier| crate::infra::runner::product(&BASES),
            tape: |_, idx| radix(idx, &BASES),
            exhaustive: true,
            exec: None,
        },
        EnumDef {
            name: "interim",
            count: |_t: Tier| 3 * 2 * 2 * 2 * 3 * 3 * 2,
            tape: |_, idx| radix(idx, &[3, 2, 2, 2, 3, 3, 2]),
            exhaustive: true,
            exec: Some(exec_interim),
        },
        EnumDef {
            name: "truncated",
            count: |_t: Tier| 6 * 5 * 3 * 4,
            tape: |_, idx| radix(idx, &[6, 5, 3, 4]),
            exhaustive: true,
            exec: Some(exec_truncated),
        },
    ],
    randoms: &[RandomDef {
        name: "decorated",
        cases: |t: Tier| t.pick(600_000, 40_000_000),
        tape_len: 600,
        exec: Some(exec_random),
    }],
    extra: None,
};
