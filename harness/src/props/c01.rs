//! C01 — exchange outcome is independent of I/O segmentation and buffer sizes.

use serde_json::json;

use crate::drive::exchange::{check_against_truth, run_exchange, AwaitMode, ExchangeSpec, Obs, Outcome, ReqFraming, RespSpec, Sched, ServerPre, Terminal};
use crate::model::head::{Field, RespHead};
use crate::drive::exgen::{gen_exchange, spec_json};
use crate::infra::runner::{PropDef, RandomDef, Tier};
use crate::infra::stats::Stats;
use crate::infra::tape::Tape;

/// Run the exchange list over the shared stream under one schedule.
fn run_list(specs: &[ExchangeSpec], full: &[u8], offsets_out: &mut Vec<usize>, s: &mut Sched, check_truth: bool) -> Result<Vec<Obs>, String> {
    let mut off = 0usize;
    let mut out = vec![];
    for (i, spec) in specs.iter().enumerate() {
        let is_last = i + 1 == specs.len();
        offsets_out.push(off);
        let (obs, term) = match run_exchange(spec, None, &full[off..], s).map_err(|e| format!("exchange {}: {}", i, e))? {
            Outcome::Done(o, t) => (o, t),
            Outcome::Premature(_) => return Err("harness: premature attempt in C01".into()),
            // the exchange left the specified course where the statements are open: the list ends here, under every schedule alike
            Outcome::NotCompared(_) => break,
        };
        if check_truth {
            check_against_truth(spec, &obs, is_last, full.len() - off).map_err(|e| format!("exchange {}: {}", i, e))?;
        }
        // a redirect that can be followed is followed: the request of the followed flow goes through the same schedule
        // (its own little server stream: a 200 with two body bytes), and its observation is part of the outcome
        let mut followed: Option<Obs> = None;
        if let Terminal::Redirect(mut r) = term {
            let has_location = spec.resp.head.fields.iter().any(|f| f.lname() == "location");
            let own_te = spec.body_due() && spec.req_framing == ReqFraming::Te;
            if has_location && !own_te && i % 2 == 0 {
                if let Ok(Some(nf)) = r.as_new_flow(ureq_proto::client::flow::RedirectAuthHeaders::SameHost) {
                    let m2 = nf.method().clone();
                    let nobody = crate::drive::exgen::no_body_clause(&m2, 200);
                    // a request sent with send-body-despite-method and repeated by a 307/308: whether the followed flow remembers the
                    // caller's wish is not stated; the caller states it again, so a body is due either way
                    let carried_despite = spec.despite && !crate::drive::recv::needs_body(&spec.method) && matches!(spec.resp.head.status, 307 | 308);
                    let spec2 = ExchangeSpec {
                        method: m2,
                        req_v10: spec.req_v10,
                        uri: String::new(),
                        req_conn: spec.req_conn,
                        expect: spec.expect,
                        despite: carried_despite,
                        req_framing: ReqFraming::Auto,
                        extra_headers: vec![],
                        body: vec![],
                        await_mode: AwaitMode::NeverLook,
                        server_pre: ServerPre::Silent,
                        resp: RespSpec {
                            head: RespHead::simple(200, vec![Field::new("Content-Length", "2"), Field::new("X-Followed", "1")]),
                            body_wire: if nobody { vec![] } else { b"ok".to_vec() },
                            payload: if nobody { vec![] } else { b"ok".to_vec() },
                            close_delimited: false,
                        },
                        prep: 0,
                    };
                    let stream2 = spec2.stream();
                    match run_exchange(&spec2, Some(nf), &stream2, s).map_err(|e| format!("exchange {} (followed redirect): {}", i, e))? {
                        Outcome::Done(o2, _) => {
                            if check_truth {
                                check_against_truth(&spec2, &o2, true, stream2.len()).map_err(|e| format!("exchange {} (followed redirect): {}", i, e))?;
                            }
                            followed = Some(o2);
                        }
                        Outcome::Premature(_) => return Err("harness: premature attempt in C01".into()),
                        // the library made the followed request without the inherited Expect: the head it wrote is all there is to compare
                        Outcome::NotCompared(_) => {}
                    }
                }
            }
        }
        off += obs.consumed;
        let close = obs.must_close;
        out.push(obs);
        if let Some(o2) = followed {
            out.push(o2);
        }
        if close {
            break;
        }
    }
    Ok(out)
}

fn diff(a: &Obs, b: &Obs) -> String {
    let mut d = vec![];
    if a.req_head != b.req_head {
        d.push(format!("request head bytes ({} vs {} bytes)", a.req_head.len(), b.req_head.len()));
    }
    if a.req_payload != b.req_payload {
        d.push(format!("request body payload ({:?} vs {:?} bytes)", a.req_payload.as_ref().map(|p| p.len()), b.req_payload.as_ref().map(|p| p.len())));
    }
    if (a.resp_status, a.resp_version_11, &a.resp_fields) != (b.resp_status, b.resp_version_11, &b.resp_fields) {
        d.push(format!("response head ({} vs {})", a.resp_status, b.resp_status));
    }
    if a.late_100_skipped != b.late_100_skipped {
        d.push(format!("late 100 skipped ({} vs {})", a.late_100_skipped, b.late_100_skipped));
    }
    if a.resp_body != b.resp_body {
        d.push(format!("response body bytes ({} vs {} bytes)", a.resp_body.len(), b.resp_body.len()));
    }
    if a.terminal != b.terminal || a.path != b.path {
        d.push(format!("state path ({:?} vs {:?})", a.path, b.path));
    }
    if (a.must_close, a.reason) != (b.must_close, b.reason) {
        d.push(format!("verdict ({} {:?} vs {} {:?})", a.must_close, a.reason, b.must_close, b.reason));
    }
    if a.consumed != b.consumed {
        d.push(format!("server bytes consumed ({} vs {})", a.consumed, b.consumed));
    }
    if a.body_mode != b.body_mode || a.body_state_entered != b.body_state_entered {
        d.push(format!("body mode ({:?} vs {:?})", a.body_mode, b.body_mode));
    }
    d.join("; ")
}

fn exec(t: &mut Tape, st: &mut Stats) -> Result<(), String> {
    let n = t.weighted(&[3, 3, 2]) + 1;
    let mut specs = vec![];
    for i in 0..n {
        specs.push(gen_exchange(t, i + 1 == n));
    }
    let mut full = vec![];
    for sp in &specs {
        full.extend_from_slice(&sp.stream());
    }
    // bytes after the last response: nothing (a close-delimited body owns the rest of the stream)
    st.describe(|| json!({"exchanges": specs.iter().map(spec_json).collect::<Vec<_>>()}));

    // canonical one-shot schedule: also the absolute oracle against the generator's ground truth
    let mut offs = vec![];
    let canon = run_list(&specs, &full, &mut offs, &mut Sched::canonical(), true).map_err(|e| format!("one-shot schedule: {}", e))?;
    st.evals(1);

    let nsched = t.range(1, 3);
    for k in 0..nsched {
        let mut s = Sched::from_tape(t);
        let mut offs2 = vec![];
        let got = run_list(&specs, &full, &mut offs2, &mut s, false).map_err(|e| format!("schedule #{}: {}", k, e))?;
        let splits = s.splits;
        let queries = s.queries;
        let moved = s.k1_moved;
        let forced = s.forced;
        st.evals(1);
        st.excluded(moved);
        if got.len() != canon.len() {
            return Err(format!("schedule #{}: {} exchanges ran, one-shot ran {}", k, got.len(), canon.len()));
        }
        for (i, (a, b)) in canon.iter().zip(got.iter()).enumerate() {
            if a != b {
                return Err(format!("schedule #{}: exchange {} differs from the one-shot schedule in: {}", k, i, diff(a, b)));
            }
        }
        // measurement
        let split_any = splits.iter().any(|c| *c as usize >= 2 * canon.len().max(1)) || splits[0] >= 2 || splits[1] >= 2;
        let has_body = specs.iter().any(|sp| sp.body_sent() && !sp.body.is_empty() || !sp.resp.payload.is_empty());
        let following = canon.len() >= 2 || specs.len() > 1;
        if splits[0] as usize > canon.len() {
            st.class("split_request_head");
        }
        if splits[3] as usize > canon.len() {
            st.class("split_response_body");
        }
        if queries > 0 {
            st.class("with_queries");
        }
        if forced > 0 {
            st.class("forced_canonical_steps");
        }
        if split_any && (has_body || following) {
            st.nontrivial(crate::infra::tape::mix(t.digest(), k as u64));
        }
    }
    for sp in specs.iter() {
        if sp.refused() {
            st.class("expect_refused");
        }
        if sp.resp.close_delimited {
            st.class("close_delimited");
        }
        if matches!(sp.server_pre, crate::drive::exchange::ServerPre::Continue(_)) {
            st.class("interim_100");
        }
    }
    st.class(match canon.len() {
        1 => "ran_1_exchange",
        2 => "ran_2_exchanges",
        _ => "ran_3_or_more_exchanges",
    });
    if canon.iter().any(|o| o.resp_fields.iter().any(|(k, _)| k == "x-followed")) {
        st.class("followed_a_redirect");
    }
    if st.wants_sample() && canon.len() == 2 && full.len() < 500 {
        st.sample(json!({"exchanges": specs.iter().map(spec_json).collect::<Vec<_>>(), "stream_len": full.len()}));
    }
    Ok(())
}

pub static DEF: PropDef = PropDef {
    id: "C01",
    rule: "random exchange lists: 1..3 exchanges sharing one server stream; per exchange method (9) x version (1.0 with GET/HEAD/POST) x \
body 0..300 bytes (10 %: 12..25 KB) x framing {default chunked, Content-Length, explicit TE} x Expect x despite-method x request \
Connection {absent, close, keep-alive, two fields} x await {look until decided, never look} x server {silent, bare 100 in four \
spellings, early final response}; response: version, status from {200,201,204,206,404,500,101,103,199,999,300..308}, 0..4 extra \
fields with obs-text, Location, Connection {absent, close, keep-alive, two fields, upgrade}, framing {Content-Length n, 0, chunked \
with random layout / extensions / trailers, close-delimited (last only), none}, no body bytes after heads that take none. Each list is \
run under the one-shot schedule - checked against the generator's ground truth (request head parses, payload equal, response \
head/fields/body equal, terminal state, verdict = the five close conditions, consumed = |interim| + |head| + |encoded body|, next \
exchange starts there) - and under 1..3 generated schedules (head buffers 0..600, body input slices, output buffers incl. 0..12 and \
exact fits +0..8, 1-byte / zero / partial arrivals, read buffers 0..8, boundary-stop toggles, read-only queries, direct-write \
reports), whose observation must be equal field by field. Cuts inside known finding K1's window are moved to the end of the head \
and counted. non-trivial = schedule that splits a request head or body or uses >= 2 calls per exchange for a response part, on a \
list with a body in some direction or a following response; distinct by (decoded-choice digest, schedule index).",
    assumptions: &[
        "an interim 100 is only sent when Expect: 100-continue was requested",
        "whether the caller looks at the socket while awaiting 100 is part of the exchange, not of the schedule",
        "while awaiting 100 only bytes the server sends before seeing the body are presented",
        "a schedule that makes no progress 4 times in a row is answered canonically until progress (counted as forced)",
    ],
    exec,
    enums: &[],
    randoms: &[RandomDef {
        name: "exchange_lists",
        cases: |t: Tier| t.pick(400_000, 24_000_000),
        tape_len: 900,
        exec: None,
    }],
    extra: None,
};
