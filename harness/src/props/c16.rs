//! C16 — headers the caller adds before sending always reach the wire.

use super::reqhead::{case_json, gen_case, run_case};
use crate::infra::runner::{PropDef, RandomDef, Tier};
use crate::infra::stats::Stats;
use crate::infra::tape::Tape;

fn exec(t: &mut Tape, st: &mut Stats) -> Result<(), String> {
    let c = gen_case(t, true);
    st.describe(|| case_json(&c));
    let out = run_case(&c, t, st)?;
    let _ = out;
    st.case_digest = t.digest();
    let suppressed_added = c.added.iter().any(|(k, _)| ["cookie", "authorization", "content-length"].iter().any(|s| k.eq_ignore_ascii_case(s)));
    st.class(match c.hops.len() {
        0 => "depth_0",
        1 => "depth_1",
        2 => "depth_2",
        _ => "depth_3",
    });
    if suppressed_added {
        st.class("added_suppressed_name");
    }
    if c.added.len() >= 17 {
        st.class("added_17_to_60");
    }
    if !c.hops.is_empty() && suppressed_added {
        st.nontrivial(st.case_digest);
        if st.wants_sample() && c.added.len() <= 4 && c.spec.orig.len() <= 4 {
            st.sample(case_json(&c));
        }
    }
    Ok(())
}

pub static DEF: PropDef = PropDef {
    id: "C16",
    rule: "random flows at redirect depth 0..3 (real 3xx exchanges; both auth policies; targets on and off the original host) whose \
original request carries cookie / authorization / content-length / other headers, with 0..60 headers added in the Prepare state of \
the final flow: names cookie, authorization, connection (45 %), content-length / transfer-encoding (when a body is sent via \
despite-method), host (when none is inherited), x-* and pool names; always C17-valid. Oracle: the emitted head, strictly parsed, \
lists every added (name, value) in the order added, ahead of every inherited field (automatic Host / framing fields removed first), \
and the inherited part equals the original headers minus the redirect-suppressed names; emitted again under a buffer schedule it is \
byte-identical. non-trivial = depth >= 1 and an added header whose name is one of the suppressed names; distinct by decoded-choice digest.",
    assumptions: &["same machinery as C02 (props/reqhead.rs) with a generator aimed at redirected flows and suppressed names"],
    exec,
    enums: &[],
    randoms: &[RandomDef {
        name: "redirected_flows",
        cases: |t: Tier| t.pick(300_000, 12_000_000),
        tape_len: 1_400,
        exec: None,
    }],
    extra: None,
};
