//! C09 — flows follow the documented state graph; the readiness query agrees with advancing.

use serde_json::json;
use ureq_proto::client::flow::RedirectAuthHeaders;
use ureq_proto::http::Method;

use crate::drive::exchange::{check_against_truth, run_exchange, AwaitMode, ExchangeSpec, Outcome, ReqConn, ReqFraming, RespSpec, Sched, ServerPre, Terminal};
use crate::drive::exgen::{gen_exchange, no_body_clause, spec_json};
use crate::drive::recv::{needs_body, METHODS};
use crate::infra::runner::{radix, EnumDef, PropDef, RandomDef, Tier};
use crate::infra::stats::Stats;
use crate::infra::tape::Tape;
use crate::model::head::{Field, RespHead};

fn method_after(m: &Method, status: u16) -> Option<Method> {
    if status == 307 || status == 308 {
        if needs_body(m) || *m == Method::DELETE {
            None
        } else {
            Some(m.clone())
        }
    } else if *m == Method::HEAD {
        Some(Method::HEAD)
    } else {
        Some(Method::GET)
    }
}

/// Drive `spec` to its terminal state; in the redirect state try to follow, and run the followed flow to completion.
fn drive(spec: &ExchangeSpec, s: &mut Sched, follow: Option<RedirectAuthHeaders>, follow_variant: usize, st: &mut Stats) -> Result<(), String> {
    let stream = spec.stream();
    let (obs, term) = match run_exchange(spec, None, &stream, s)? {
        Outcome::Done(o, t) => (o, t),
        Outcome::Premature(state) => {
            st.class("premature_attempt_refused");
            st.nontrivial(st.case_digest);
            let _ = state;
            return Ok(());
        }
        Outcome::NotCompared(why) => {
            st.class(why);
            return Ok(());
        }
    };
    st.evals(1);
    check_against_truth(spec, &obs, true, stream.len())?;
    let states = obs.path.len();
    let interesting = obs.path.contains(&"Await100") || obs.path.contains(&"Redirect");
    if states >= 4 && interesting {
        if st.nontrivial(st.case_digest) && st.wants_sample() && stream.len() < 400 {
            st.sample(json!({"exchange": spec_json(spec), "state_path": obs.path, "follow": follow.map(|p| format!("{:?}", p))}));
        }
    }
    if obs.path.contains(&"Await100") {
        st.class("via_await100");
    }
    match term {
        Terminal::Cleanup(c) => {
            let _ = c.must_close_connection();
            let _ = c.close_reason();
        }
        Terminal::Redirect(mut r) => {
            st.class("via_redirect");
            let has_location = spec.resp.head.fields.iter().any(|f| f.lname() == "location");
            if let Some(policy) = follow {
                let first = r.as_new_flow(policy);
                // asking again is permitted as long as no flow was handed out: the answer must be the same (other policy)
                if !matches!(first, Ok(Some(_))) {
                    let other = if policy == RedirectAuthHeaders::Never { RedirectAuthHeaders::SameHost } else { RedirectAuthHeaders::Never };
                    let again = r.as_new_flow(other);
                    match (&first, &again) {
                        (Err(_), Err(_)) | (Ok(None), Ok(None)) => st.class("as_new_flow_asked_twice"),
                        _ => return Err(format!("as_new_flow answered {} and then {} when asked again", if first.is_err() { "Err" } else { "None" }, match &again { Err(_) => "Err", Ok(None) => "None", Ok(Some(_)) => "a flow" })),
                    }
                }
                match first {
                    Err(e) => {
                        if has_location {
                            return Err(format!("as_new_flow failed although the response has a Location: {:?}", e));
                        }
                        st.class("redirect_without_location_is_error");
                    }
                    Ok(next) => {
                        if !has_location {
                            return Err("as_new_flow succeeded without a Location header".into());
                        }
                        let want = method_after(&spec.method, spec.resp.head.status);
                        match (next, want) {
                            (None, None) => st.class("redirect_not_followed"),
                            (Some(_), None) => return Err("redirect followed although the method table says it is not".into()),
                            (None, Some(m)) => return Err(format!("redirect not followed, the method table says {}", m)),
                            (Some(nf), Some(m)) => {
                                if nf.method() != m {
                                    return Err(format!("followed flow has method {}, expected {}", nf.method(), m));
                                }
                                if spec.body_due() && spec.req_framing == ReqFraming::Te {
                                    // the inherited transfer-encoding header makes the body-less request invalid: the
                                    // statement does not cover it (DESIGN 5.3); not driven further
                                    st.class("follow_skipped_inherited_te");
                                } else {
                                    // the followed flow is a fully usable Prepare flow: run it to completion
                                    let is_head = no_body_clause(&m, 200);
                                    // the followed flow inherits the Expect header: it must behave like any other flow with it
                                    // variant 0 plain; 1 body sent despite the method (Await100 first when Expect is inherited);
                                    // 2 the server sends an interim 100 that nobody waited for (skipped once)
                                    // (a request sent with send-body-despite-method and repeated by a 307/308: whether the followed flow
                                    // remembers the caller's wish is not stated; the caller states it again)
                                    let carried = spec.despite && !needs_body(&spec.method) && matches!(spec.resp.head.status, 307 | 308);
                                    let despite2 = follow_variant % 3 == 1 || carried;
                                    let late100 = follow_variant % 3 == 2 && spec.expect;
                                    let spec2 = ExchangeSpec {
                                        method: m,
                                        req_v10: spec.req_v10,
                                        uri: String::new(),
                                        req_conn: spec.req_conn,
                                        expect: spec.expect,
                                        despite: despite2,
                                        req_framing: ReqFraming::Auto,
                                        extra_headers: vec![],
                                        body: if despite2 { b"again".to_vec() } else { vec![] },
                                        await_mode: if follow_variant % 2 == 0 { AwaitMode::NeverLook } else { AwaitMode::Look },
                                        server_pre: if late100 { ServerPre::Continue(b"HTTP/1.1 100 Continue\r\n\r\n".to_vec()) } else { ServerPre::Silent },
                                        resp: RespSpec {
                                            head: RespHead::simple(200, vec![Field::new("Content-Length", "2")]),
                                            body_wire: if is_head { vec![] } else { b"ok".to_vec() },
                                            payload: if is_head { vec![] } else { b"ok".to_vec() },
                                            close_delimited: false,
                                        },
                                        prep: 0,
                                    };
                                    let stream2 = spec2.stream();
                                    let mut s2 = Sched::canonical();
                                    s2.always_query = true;
                                    match run_exchange(&spec2, Some(nf), &stream2, &mut s2).map_err(|e| format!("followed flow: {}", e))? {
                                        Outcome::Done(o2, _) => {
                                            check_against_truth(&spec2, &o2, true, stream2.len()).map_err(|e| format!("followed flow: {}", e))?;
                                            st.class("followed_flow_completed");
                                        }
                                        Outcome::Premature(_) => return Err("harness: premature in followed flow".into()),
                                        Outcome::NotCompared(why) => st.class(why),
                                    }
                                    st.evals(1);
                                }
                            }
                        }
                    }
                }
            }
            // the redirect state stays usable and advances to cleanup
            let st_code = r.status().as_u16();
            if st_code != spec.resp.head.status {
                return Err(format!("Redirect::status() = {}", st_code));
            }
            let c = r.proceed();
            let _ = c.must_close_connection();
        }
    }
    Ok(())
}

const STATUS_MENU: [(u16, bool); 7] = [(200, false), (204, false), (304, false), (302, true), (302, false), (307, true), (404, false)];
const BASES: [u64; 8] = [9, 2, 2, 2, 3, 5, 7, 5];

fn exec_menu(t: &mut Tape, st: &mut Stats) -> Result<(), String> {
    let method = METHODS[t.below(9)].clone();
    let req_v10 = t.below(2) == 1;
    let expect = t.below(2) == 1;
    let despite = t.below(2) == 1;
    let req_framing = [ReqFraming::Auto, ReqFraming::Cl, ReqFraming::Te][t.below(3)];
    let behaviour = t.below(5); // 0 silent, 1 interim 100 seen, 2 refusal bare, 3 refusal with fields, 4 late 100
    let (status, with_location) = STATUS_MENU[t.below(7)];
    let framing = t.below(5); // 0 CL n, 1 CL 0, 2 chunked, 3 close, 4 none
    st.case_digest = t.digest();
    if req_v10 && ![Method::GET, Method::HEAD, Method::POST].contains(&method) {
        st.class("skipped_invalid");
        return Ok(());
    }
    let body_due = needs_body(&method) || despite;
    if !body_due && req_framing != ReqFraming::Auto {
        st.class("skipped_invalid");
        return Ok(());
    }
    if behaviour != 0 && !expect {
        st.class("skipped_invalid");
        return Ok(());
    }
    if (behaviour == 2 || behaviour == 3) && !body_due {
        st.class("skipped_invalid");
        return Ok(());
    }
    let resp_v11 = true;
    let (await_mode, server_pre) = match behaviour {
        0 => (AwaitMode::Look, ServerPre::Silent),
        1 => (AwaitMode::Look, ServerPre::Continue(b"HTTP/1.1 100 Continue\r\n\r\n".to_vec())),
        2 | 3 => (AwaitMode::Look, ServerPre::Refuse),
        _ => (AwaitMode::NeverLook, ServerPre::Continue(b"HTTP/1.1 100 Continue\r\n\r\n".to_vec())),
    };
    let bare = behaviour == 2;
    let mut fields = vec![];
    if !bare {
        fields.push(Field::new("X-A", "1"));
        if with_location {
            fields.push(Field::new("Location", "/next/hop?x=1"));
        }
    }
    let nobody = no_body_clause(&method, status);
    let is3xx = (300..400).contains(&status);
    let mut body_wire = vec![];
    let mut payload = vec![];
    let mut close_delimited = false;
    let fr = if bare { 4 } else { framing };
    match fr {
        0 => {
            fields.push(Field::new("Content-Length", "5"));
            if !nobody {
                payload = b"hello".to_vec();
                body_wire = payload.clone();
            }
        }
        1 => fields.push(Field::new("Content-Length", "0")),
        2 => {
            fields.push(Field::new("Transfer-Encoding", "chunked"));
            if !nobody {
                payload = b"hello, world".to_vec();
                body_wire = b"5\r\nhello\r\n7;x\r\n, world\r\n0\r\nT: v\r\n\r\n".to_vec();
            }
        }
        _ => {
            if !nobody && !is3xx {
                payload = b"to the end".to_vec();
                body_wire = payload.clone();
                close_delimited = true;
            }
        }
    }
    let prep = ((status as usize + framing + behaviour) % 3) as u8;
    let spec = ExchangeSpec {
        method,
        req_v10,
        uri: "http://h.test/start".into(),
        req_conn: ReqConn::Absent,
        expect,
        despite,
        req_framing,
        extra_headers: vec![("x-q".into(), "1".into())],
        body: b"request body".to_vec(),
        await_mode,
        server_pre,
        resp: RespSpec { head: RespHead { v11: resp_v11, status, reason: Some(b"R".to_vec()), fields }, body_wire, payload, close_delimited },
        prep: prep,
    };
    st.describe(|| spec_json(&spec));
    let mut s = Sched::canonical();
    s.always_query = true;
    let policy = if framing % 2 == 0 { RedirectAuthHeaders::Never } else { RedirectAuthHeaders::SameHost };
    let variant = (framing + behaviour + expect as usize * 2) % 3;
    drive(&spec, &mut s, Some(policy), variant, st)?;
    st.class("menu_cell_run");
    Ok(())
}

fn exec_random(t: &mut Tape, st: &mut Stats) -> Result<(), String> {
    let spec = gen_exchange(t, true);
    let follow = match t.below(3) {
        0 => None,
        1 => Some(RedirectAuthHeaders::Never),
        _ => Some(RedirectAuthHeaders::SameHost),
    };
    let premature = t.weighted(&[2, 2, 1]) as u32;
    let variant = t.below(3);
    st.describe(|| json!({"exchange": spec_json(&spec), "follow": follow.map(|p| format!("{:?}", p)), "premature_budget": premature}));
    st.case_digest = t.digest();
    // Locations of the random generator that are followed: resolvable ones only ("/next", absolute, "../up", "?only=query")
    let mut s = Sched::from_tape(t);
    s.premature_budget = premature;
    let r = drive(&spec, &mut s, follow, variant, st);
    let moved = s.k1_moved;
    st.excluded(moved);
    r
}

/// Stage 'any_request': requests of every validity class (versions, framing headers incl. non-numeric and zero lengths on
/// body-less methods, zero to two Host fields, despite-method, Expect). Whether such a request is accepted is C17's business;
/// here only the state graph's own promises are checked: no call panics, `can_proceed()` is true exactly when `proceed()`
/// then succeeds, and a flow that did advance is usable in its new state (the empty body can be finished, a response read).
fn exec_any_request(t: &mut Tape, st: &mut Stats) -> Result<(), String> {
    use ureq_proto::client::flow::{Await100Result, Flow, RecvResponseResult, SendRequestResult};
    use ureq_proto::http::{Request, Version};
    let method = METHODS[t.below(9)].clone();
    let version = [Version::HTTP_11, Version::HTTP_10, Version::HTTP_2][t.below(3)];
    let framing = t.below(7);
    let hosts = t.below(3);
    let despite = t.below(2) == 1;
    let expect = t.below(2) == 1;
    let sizes: &[usize] = [&[2048usize][..], &[0, 1, 30, 2048][..], &[40, 40, 40, 40, 40, 40, 2048][..]][t.below(3)];
    st.case_digest = t.digest();
    st.evals(1);
    let mut b = Request::builder().method(method.clone()).uri("http://q.test/r?s=1").version(version);
    const FRAMINGS: [&[(&str, &str)]; 7] = [
        &[],
        &[("content-length", "0")],
        &[("content-length", "5")],
        &[("content-length", "abc")],
        &[("transfer-encoding", "chunked")],
        &[("content-length", "5"), ("transfer-encoding", "chunked")],
        &[("content-length", "0"), ("content-length", "0")],
    ];
    for (k, v) in FRAMINGS[framing] {
        b = b.header(*k, *v);
    }
    for i in 0..hosts {
        b = b.header("host", if i == 0 { "q.test" } else { "other.test" });
    }
    if expect {
        b = b.header("expect", "100-continue");
    }
    let what = format!("{} {:?} framing {:?} hosts {} despite {} expect {} buffers {:?}", method, version, FRAMINGS[framing], hosts, despite, expect, sizes);
    st.describe(|| json!({"stage": "any_request", "request": what}));
    let req = b.body(()).map_err(|e| e.to_string())?;
    let mut f = match Flow::new(req) {
        Ok(f) => f,
        Err(_) => {
            st.class("any_request_refused_at_construction");
            return Ok(());
        }
    };
    if despite {
        f.send_body_despite_method();
    }
    let mut sr = f.proceed();
    let mut buf = vec![0u8; 2048];
    let mut errors = 0;
    let mut wire: Vec<u8> = vec![];
    for n in sizes {
        let ready_before = sr.can_proceed();
        match sr.write(&mut buf[..*n]) {
            Ok(k) => {
                if ready_before && k > 0 {
                    return Err(format!("{}: {} bytes written although the head was reported complete", what, k));
                }
                wire.extend_from_slice(&buf[..k]);
            }
            Err(_) => errors += 1,
        }
    }
    let ready = sr.can_proceed();
    let next = match sr.proceed() {
        Ok(Some(n)) => {
            if !ready {
                return Err(format!("{}: can_proceed() was false but proceed() advanced", what));
            }
            n
        }
        Ok(None) | Err(_) => {
            if ready {
                return Err(format!("{}: can_proceed() was true but proceed() did not advance", what));
            }
            st.class(if errors > 0 { "any_request_refused" } else { "any_request_not_ready" });
            st.count_nontrivial(1);
            return Ok(());
        }
    };
    st.class("any_request_advanced");
    // use the state reached. The body is sent the way the head on the wire announces it to a recipient (RFC 9112 6.3: a chunked
    // transfer coding overrides Content-Length): whatever the library decided internally must agree with what it wrote
    let head = crate::model::head::parse_request_head(&wire).map_err(|e| format!("{}: the flow advanced but the head on the wire is invalid: {}", what, e))?;
    let te_chunked = head
        .fields
        .iter()
        .any(|(k, v)| k.eq_ignore_ascii_case("transfer-encoding") && String::from_utf8_lossy(v).split(',').any(|c| c.trim().eq_ignore_ascii_case("chunked")));
    let announced_len: Option<usize> = if te_chunked {
        None
    } else {
        head.fields.iter().find(|(k, _)| k.eq_ignore_ascii_case("content-length")).and_then(|(_, v)| String::from_utf8_lossy(v).trim().parse().ok())
    };
    let body: &[u8] = &b"12345678"[..announced_len.unwrap_or(0).min(8)];
    let mut out = [0u8; 64];
    let mut rr = match next {
        SendRequestResult::RecvResponse(r) => r,
        SendRequestResult::SendBody(mut sb) => {
            let data: &[u8] = body;
            sb.write(data, &mut out).map_err(|e| format!("{}: body write failed: {:?}", what, e))?;
            if !data.is_empty() && !sb.can_proceed() {
                sb.write(b"", &mut out).map_err(|e| format!("{}: finishing write failed: {:?}", what, e))?;
            }
            let cp = sb.can_proceed();
            match sb.proceed() {
                Some(r) if cp => r,
                None if !cp => return Err(format!("{}: body written and finished but the flow cannot proceed", what)),
                _ => return Err(format!("{}: SendBody can_proceed() = {} disagrees with proceed()", what, cp)),
            }
        }
        SendRequestResult::Await100(a) => match a.proceed().map_err(|e| format!("{}: Await100::proceed: {:?}", what, e))? {
            Await100Result::SendBody(mut sb) => {
                let data: &[u8] = body;
                sb.write(data, &mut out).map_err(|e| format!("{}: body write failed: {:?}", what, e))?;
                if !data.is_empty() && !sb.can_proceed() {
                    sb.write(b"", &mut out).map_err(|e| format!("{}: finishing write failed: {:?}", what, e))?;
                }
                sb.proceed().ok_or_else(|| format!("{}: body finished but the flow cannot proceed", what))?
            }
            Await100Result::RecvResponse(r) => r,
        },
    };
    let head = b"HTTP/1.1 200 OK\r\nContent-Length: 0\r\n\r\n";
    match rr.try_response(head) {
        Ok((n, Some(_))) if n == head.len() => {}
        other => return Err(format!("{}: response not accepted in the state reached: {:?}", what, other.map(|o| (o.0, o.1.is_some())))),
    }
    if !rr.can_proceed() {
        return Err(format!("{}: response read but not ready", what));
    }
    match rr.proceed() {
        Some(RecvResponseResult::Cleanup(c)) => {
            let _ = c.must_close_connection();
        }
        Some(_) => return Err(format!("{}: 200 with Content-Length 0 did not lead to Cleanup", what)),
        None => return Err(format!("{}: ready but proceed() is None", what)),
    }
    Ok(())
}

const ANY_BASES: [u64; 7] = [9, 3, 7, 3, 2, 2, 3];

pub static DEF: PropDef = PropDef {
    id: "C09",
    rule: "enumeration 'menu': 9 methods x request version x Expect x send-body-despite-method x request framing {none, Content-Length, \
Transfer-Encoding} x server behaviour {silent, interim 100, refusal by a bare response, refusal with fields, late 100} x final status \
{200, 204, 304, 302 with / without Location, 307 with Location, 404} x response framing {Content-Length 5, 0, chunked with extension \
and trailer, close-delimited, none} = 37800 cells (invalid requests skipped and counted), each driven under the canonical schedule \
with EVERY read-only accessor and permitted no-op (extra head write, headers_map, calculate_max_input, is_chunked, \
is_on_chunk_boundary, body_mode, can_keep_await_100, ...) called at every step; in the redirect state as_new_flow is called and the \
followed flow is itself run to completion in one of three variants (plain; body sent despite the method, through Await100 when the \
Expect header is inherited; an interim 100 arriving although nobody waited). enumeration 'any_request' (6804 cells): requests of every validity class (9 methods x {1.1, 1.0, 2} x framing {none, \
Content-Length 0 / 5 / abc, chunked, both, two lengths} x 0..2 Host fields x despite x Expect x three buffer schedules for the head): whether the request \
is accepted is C17's business; checked here: no panic, can_proceed() <=> proceed() advances, an advanced flow is usable to Cleanup. random 'histories': C01's exchange generator under generated schedules with 0..2 \
premature advance attempts placed anywhere (SendRequest, SendBody, RecvResponse, RecvBody), interleaved queries, boundary-stop \
toggles, direct-write reports, optional follow. Oracle: no panic; every proceed() succeeds exactly when the readiness query was \
true (premature attempts yield None and the query was false); the successor state is the one the model prescribes (body due / Expect \
/ refusal / C06 framing / 3xx != 304); every state reached is used to completion and the exchange equals its ground truth. \
non-trivial = history traversing >= 4 states including Await100 or Redirect, or ending in a refused premature attempt; distinct by \
decoded-choice digest.",
    assumptions: &[
        "try_read_100 is not called again once can_keep_await_100() is false; as_new_flow is not called again after Some (after None or Err it is, with the other policy: same answer)",
        "following a redirect of a request that carried its own Transfer-Encoding header is not driven further (DESIGN 5.3)",
    ],
    exec: exec_random,
    enums: &[EnumDef {
        name: "menu",
        count: |_t: Tier| crate::infra::runner::product(&BASES),
        tape: |_, idx| radix(idx, &BASES),
        exhaustive: true,
        exec: Some(exec_menu),
    },
    EnumDef {
        name: "any_request",
        count: |_t: Tier| crate::infra::runner::product(&ANY_BASES),
        tape: |_, idx| radix(idx, &ANY_BASES),
        exhaustive: true,
        exec: Some(exec_any_request),
    }],
    randoms: &[RandomDef {
        name: "histories",
        cases: |t: Tier| t.pick(900_000, 60_000_000),
        tape_len: 700,
        exec: None,
    }],
    extra: None,
};
