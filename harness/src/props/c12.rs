//! C12 — no server byte sequence can panic, hang or desynchronise the client.

use serde_json::{json, Value};
use ureq_proto::http::Method;

use crate::drive::chaos::{chaos_run, run_bytes, Cfg};
use crate::drive::exchange::{AwaitMode, ReqFraming, ServerPre};
use crate::drive::exgen::gen_exchange;
use crate::infra::runner::{EnumDef, PropDef, RandomDef, RunCfg, Tier, Violation};
use crate::infra::stats::Stats;
use crate::infra::tape::{hash_bytes, mix, Mode, Tape};

struct Combo {
    name: &'static str,
    cfg: [u8; 4],
    prefix: &'static [u8],
    alphabet: &'static [u8; 10],
}

const A_START: &[u8; 10] = b"HTP/1. \r\n0";
const A_STATUS: &[u8; 10] = b"102 \r\nA:\t\xff";
const A_FIELDS: &[u8; 10] = b"A: \r\n\t\xff1,c";
const A_CHUNK: &[u8; 10] = b"01aF;\r\n x\xff";

// cfg bytes: [method index, flags (1 v10, 2 expect, 4 despite, 8 conn close, 16 look, 32 stop), framing, follow]
const COMBOS: [Combo; 14] = [
    Combo { name: "await100/start", cfg: [2, 2 | 16, 0, 0], prefix: b"", alphabet: A_START },
    Combo { name: "await100/status", cfg: [3, 2 | 16, 1, 0], prefix: b"HTTP/1.1 ", alphabet: A_STATUS },
    Combo { name: "await100/after-100-line", cfg: [2, 2 | 16 | 1, 2, 0], prefix: b"HTTP/1.1 100 Continue\r\n", alphabet: A_FIELDS },
    Combo { name: "await100/after-403-line", cfg: [8, 2 | 16 | 8, 0, 0], prefix: b"HTTP/1.0 403 Forbidden\r\n", alphabet: A_FIELDS },
    Combo { name: "head/start", cfg: [0, 0, 0, 1], prefix: b"", alphabet: A_START },
    Combo { name: "head/status", cfg: [1, 0, 0, 1], prefix: b"HTTP/1.1 ", alphabet: A_STATUS },
    Combo { name: "head/fields", cfg: [0, 0, 0, 2], prefix: b"HTTP/1.1 200 OK\r\n", alphabet: A_FIELDS },
    Combo { name: "head/after-location", cfg: [2, 0, 1, 2], prefix: b"HTTP/1.1 302 Found\r\nLocation: /x\r\n", alphabet: A_FIELDS },
    Combo { name: "chunked/size", cfg: [0, 32, 0, 0], prefix: b"HTTP/1.1 200 OK\r\nTransfer-Encoding: chunked\r\n\r\n", alphabet: A_CHUNK },
    Combo { name: "chunked/in-data", cfg: [0, 0, 0, 0], prefix: b"HTTP/1.1 200 OK\r\nTransfer-Encoding: chunked\r\n\r\n3\r\nab", alphabet: A_CHUNK },
    Combo { name: "chunked/ending", cfg: [4, 32, 0, 0], prefix: b"HTTP/1.1 301 M\r\nLocation: http://[::1\r\nTransfer-Encoding: chunked\r\n\r\n1\r\na\r\n0\r\n", alphabet: A_CHUNK },
    Combo { name: "chunked/huge-size", cfg: [0, 0, 0, 0], prefix: b"HTTP/1.1 200 OK\r\nTransfer-Encoding: chunked\r\n\r\n7fffffffffffff", alphabet: A_CHUNK },
    Combo { name: "chunked/max-size", cfg: [0, 32, 0, 0], prefix: b"HTTP/1.1 200 OK\r\nTransfer-Encoding: chunked\r\n\r\nffffffffffffff", alphabet: A_CHUNK },
    Combo { name: "length/body", cfg: [0, 1, 0, 0], prefix: b"HTTP/1.1 200 OK\r\nContent-Length: 3\r\n\r\n", alphabet: A_CHUNK },
];

fn run_one(cfg: &Cfg, sched: &[u8], server: &[u8], enumerated: bool, st: &mut Stats) -> Result<(), String> {
    st.evals(1);
    let info = chaos_run(cfg, sched, server).map_err(|e| format!("{} [config {}; schedule {:?}; {} server bytes]", e, cfg.describe(), sched, server.len()))?;
    if info.errors > 0 {
        st.class("rejected_with_error");
    } else if info.accepted_whole_exchange {
        st.class("accepted_as_valid_exchange");
    } else {
        st.class("incomplete_no_error");
    }
    if !info.accepted_whole_exchange && info.server_calls >= 2 && enumerated {
        // distinct by construction (enumeration index x schedule)
        st.count_nontrivial(1);
        if st.wants_sample() && info.errors > 0 && info.reached == "RecvBody" && server.len() % 7 == 3 {
            st.sample(json!({"config": cfg.describe(), "schedule": sched, "server": String::from_utf8_lossy(server), "reached": info.reached, "server_calls": info.server_calls}));
        }
    } else if !info.accepted_whole_exchange && info.server_calls >= 2 {
        let mut d = hash_bytes(server);
        d = mix(d, hash_bytes(sched));
        d = mix(d, hash_bytes(cfg.describe().as_bytes()));
        if st.nontrivial(d) && st.wants_sample() && server.len() < 120 && info.errors > 0 && info.reached != "RecvResponse" {
            st.sample(json!({"config": cfg.describe(), "schedule": sched, "server": String::from_utf8_lossy(server), "reached": info.reached, "server_calls": info.server_calls}));
        }
    }
    Ok(())
}

fn strlen(tier: Tier) -> u32 {
    tier.pick(6, 7)
}

/// Stage 'alphabet': combo x every string of length L over the combo's 10-symbol alphabet, offered one-shot and byte by byte.
fn exec_alphabet(t: &mut Tape, st: &mut Stats) -> Result<(), String> {
    let ci = t.below(COMBOS.len());
    let l = t.below(9);
    let mut idx = t.below(100_000_000);
    let combo = &COMBOS[ci];
    let mut server = combo.prefix.to_vec();
    for _ in 0..l {
        server.push(combo.alphabet[idx % 10]);
        idx /= 10;
    }
    let mut cb = combo.cfg;
    // rotate boundary-stop and follow policy with the string so that both settings see every string class
    if server.len() % 2 == 0 {
        cb[1] ^= 32;
    }
    let cfg = Cfg::decode(cb);
    st.describe(|| json!({"stage": "alphabet", "combo": combo.name, "config": cfg.describe(), "server": String::from_utf8_lossy(&server), "server_hex": hex(&server)}));
    run_one(&cfg, &[0], &server, true, st)?;
    // byte by byte after the valid prefix (the prefix arrives in one piece: re-parsing it per byte only costs time),
    // with 1..2-byte output buffers
    let mut sched = vec![combo.prefix.len().max(1) as u8, 1];
    for _ in 0..l {
        sched.extend_from_slice(&[1, 2]);
    }
    sched.extend_from_slice(&[1, 3, 1, 2]);
    run_one(&cfg, &sched, &server, true, st)?;
    Ok(())
}

fn hex(b: &[u8]) -> String {
    b.iter().map(|x| format!("{:02x}", x)).collect()
}

const TOKENS: [&[u8]; 40] = [
    b"ffffffffffffffff\r\n",
    b"7fffffffffffffff\r\n",
    b"8000000000000000;x\r\n",
    b"\r\n",
    b"\r",
    b"\n",
    b"\r\n\r\n",
    b"ffffffffffffffffff",
    b"Connection: close\r\n",
    b"HTTP/1.1 100 Continue\r\n\r\n",
    b"Transfer-Encoding: chunked\r\n",
    b"Content-Length: 18446744073709551616\r\n",
    b"Content-Length: -1\r\n",
    b"0\r\n\r\n",
    b";",
    b"HTTP/1.1 ",
    b"Location: http://[::1\r\n",
    b"Location: \xff\r\n",
    b":",
    b" ",
    b"\x00",
    // list-valued fields in odd but parseable shapes: blank, empty and whitespace-only elements, stray commas
    b"Connection: keep-alive, , close\r\n",
    b"Connection: ,\r\n",
    b"Connection: \t \r\n",
    b"Connection: close ,\t, x\r\n",
    b"Connection:,,close,,\r\n",
    b"Transfer-Encoding: gzip, , chunked\r\n",
    b"Transfer-Encoding: , chunked\r\n",
    b"Transfer-Encoding: chunked, \r\n",
    b"Content-Length: 5, \r\n",
    b"Content-Length: , 5\r\n",
    b"Content-Length:  \r\n",
    b"Location: \r\n",
    // Locations whose authority is odd: what is accepted here is the base of the next hop
    b"Location: http://b.test:99999/next\r\n",
    b"Location: http://b.test:0/\r\n",
    b"Location: http://b.test:/x\r\n",
    b"Location: http://:80/\r\n",
    b"Location: //\r\n",
    b"Location: http://b.test:65536\r\n",
    b"Location: HTTP://B.TEST:080/%\r\n",
];

/// Stage 'mutants': a valid exchange (C01's generator), 1..4 grammar-aware mutations, random schedule.
fn exec_mutants(t: &mut Tape, st: &mut Stats) -> Result<(), String> {
    let spec = gen_exchange(t, true);
    let mut server = spec.stream();
    let other = gen_exchange(t, true).stream();
    let cfg = Cfg {
        method: spec.method.clone(),
        v10: spec.req_v10,
        expect: spec.expect,
        despite: spec.despite,
        framing: match spec.req_framing {
            ReqFraming::Auto => 0,
            ReqFraming::Cl => 1,
            ReqFraming::Te => 2,
        },
        conn_close: !matches!(spec.req_conn, crate::drive::exchange::ReqConn::Absent | crate::drive::exchange::ReqConn::KeepAlive),
        look: spec.await_mode == AwaitMode::Look || matches!(spec.server_pre, ServerPre::Refuse),
        stop_on_boundary: t.bool(),
        follow: t.below(3) as u8,
    };
    let nm = t.range(0, 4);
    let mut kinds = vec![];
    for _ in 0..nm {
        let len = server.len();
        let kind = t.weighted(&[3, 3, 2, 2, 4, 2, 1, 1, 1, 2, 2, 2, 3]);
        kinds.push(kind);
        match kind {
            0 => {
                if !server.is_empty() {
                    let p = t.below(len.max(1));
                    server[p] ^= 1 << t.below(8);
                }
            }
            1 => {
                if !server.is_empty() {
                    let a = t.below(len.max(1));
                    let n = t.range(1, 12).min(server.len() - a);
                    server.drain(a..a + n);
                }
            }
            2 => {
                if !server.is_empty() {
                    let a = t.below(len.max(1));
                    let n = t.range(1, 40).min(server.len() - a);
                    let seg: Vec<u8> = server[a..a + n].to_vec();
                    let at = t.below(len + 1);
                    server.splice(at..at, seg);
                }
            }
            3 => {
                if !other.is_empty() {
                    let a = t.below(other.len());
                    let n = t.range(1, 60).min(other.len() - a);
                    let at = t.below(len + 1);
                    server.splice(at..at, other[a..a + n].iter().cloned());
                }
            }
            4 => {
                let tok = *t.pick(&TOKENS);
                // often at a line start
                let at = if t.chance(60) {
                    let starts: Vec<usize> = std::iter::once(0).chain(server.windows(2).enumerate().filter(|(_, w)| *w == b"\r\n").map(|(i, _)| i + 2)).collect();
                    *t.pick(&starts)
                } else {
                    t.below(len + 1)
                };
                server.splice(at..at, tok.iter().cloned());
            }
            5 => {
                // truncate
                let at = t.below(len + 1);
                server.truncate(at);
            }
            6 => {
                // 129+ fields after the first line
                if let Some(p) = server.windows(2).position(|w| w == b"\r\n") {
                    let n = t.range(100, 140);
                    let mut extra = vec![];
                    for i in 0..n {
                        extra.extend_from_slice(format!("X-{}: {}\r\n", i, i).as_bytes());
                    }
                    server.splice(p + 2..p + 2, extra);
                }
            }
            7 => {
                // a field name or value of 64 KiB and more
                if let Some(p) = server.windows(2).position(|w| w == b"\r\n") {
                    let n = *t.pick(&[65_535usize, 65_536, 70_000]);
                    let mut extra = vec![];
                    if t.bool() {
                        extra.extend(std::iter::repeat(b'n').take(n));
                        extra.extend_from_slice(b": v\r\n");
                    } else {
                        extra.extend_from_slice(b"X-Big: ");
                        extra.extend(std::iter::repeat(b'v').take(n));
                        extra.extend_from_slice(b"\r\n");
                    }
                    server.splice(p + 2..p + 2, extra);
                }
            }
            9 => {
                // one field line repeated 2..12 times (counts near internal capacities)
                let starts: Vec<usize> = server.windows(2).enumerate().filter(|(_, w)| *w == b"\r\n").map(|(i, _)| i + 2).collect();
                if starts.len() >= 2 {
                    let i = t.below(starts.len() - 1);
                    let (a, b) = (starts[i], starts[i + 1]);
                    let line: Vec<u8> = if t.chance(50) { b"Connection: close\r\n".to_vec() } else { server[a..b].to_vec() };
                    let k = t.range(2, 12);
                    let mut rep = vec![];
                    for _ in 0..k {
                        rep.extend_from_slice(&line);
                    }
                    server.splice(a..a, rep);
                }
            }
            10 => {
                // bare LF line ends (httparse tolerates them): all of them, or the first few
                let all = t.chance(70);
                let mut out = Vec::with_capacity(server.len());
                let mut i = 0;
                let mut n = 0;
                while i < server.len() {
                    if server[i] == b'\r' && i + 1 < server.len() && server[i + 1] == b'\n' && (all || n < 3) {
                        n += 1;
                        i += 1;
                        continue;
                    }
                    out.push(server[i]);
                    i += 1;
                }
                server = out;
            }
            12 => {
                // reshape the value of one field line: list separators, blank / whitespace-only elements, padding
                let starts: Vec<usize> = server.windows(2).enumerate().filter(|(_, w)| *w == b"\r\n").map(|(i, _)| i + 2).collect();
                let lines: Vec<(usize, usize)> = starts
                    .iter()
                    .filter_map(|a| {
                        let rest = &server[*a..];
                        let end = rest.windows(2).position(|w| w == b"\r\n")?;
                        let colon = rest[..end].iter().position(|b| *b == b':')?;
                        Some((a + colon + 1, a + end))
                    })
                    .take(40)
                    .collect();
                if !lines.is_empty() {
                    let (vs, ve) = *t.pick(&lines);
                    let old: Vec<u8> = server[vs..ve].to_vec();
                    let sep: &[u8] = *t.pick(&[&b", , "[..], b",", b" , ", b",,", b", \t ,", b" ", b"\t", b",  "]);
                    let new: Vec<u8> = match t.below(5) {
                        0 => [&old[..], sep, b"close"].concat(),
                        1 => [b" keep-alive".as_ref(), sep, old.as_slice()].concat(),
                        2 => [&old[..], sep].concat(),
                        3 => sep.to_vec(),
                        _ => [&old[..], sep, &old[..]].concat(),
                    };
                    server.splice(vs..ve, new);
                }
            }
            11 => {
                // k interim responses in front, bare or carrying fields
                let k = t.range(1, 8);
                let one: &[u8] = *t.pick(&[&b"HTTP/1.1 100 Continue\r\n\r\n"[..], b"HTTP/1.1 100 Continue\r\nConnection: close\r\n\r\n", b"HTTP/1.1 102 Processing\r\n\r\n", b"HTTP/1.0 100 \r\nX: y\r\n\r\n"]);
                let mut pre = vec![];
                for _ in 0..k {
                    pre.extend_from_slice(one);
                }
                server.splice(0..0, pre);
            }
            _ => {
                // oversize chunk size / numbers: replace a digit run by many digits
                let digits: Vec<usize> = server.iter().enumerate().filter(|(_, b)| b.is_ascii_hexdigit()).map(|(i, _)| i).collect();
                if !digits.is_empty() {
                    let p = *t.pick(&digits);
                    let big = *t.pick(&[&b"99999999999999999999"[..], b"ffffffffffffffff", b"10000000000000000", b"7fffffffffffffff", b"18446744073709551615"]);
                    server.splice(p..p + 1, big.iter().cloned());
                }
            }
        }
    }
    let ns = t.range(0, 8);
    // schedule bytes: everything / tiny steps / anything / arrivals that end at a line structure (before CR, between CR and LF, after LF)
    let sched: Vec<u8> = (0..ns).map(|_| match t.weighted(&[2, 3, 2, 2]) { 0 => 0, 1 => t.range(1, 9) as u8, 2 => t.below(256) as u8, _ => t.range(200, 255) as u8 }).collect();
    st.case_digest = t.digest();
    st.describe(|| json!({"stage": "mutants", "config": cfg.describe(), "schedule": sched, "mutations": kinds, "server_len": server.len(), "server_head": String::from_utf8_lossy(&server[..server.len().min(300)]), "server_hex": if server.len() <= 2048 { hex(&server) } else { String::new() }}));
    run_one(&cfg, &sched, &server, false, st)
}

/// All five close conditions at once, with every refusal shape (reachable since the Await100 -> RecvResponse edge works).
fn exec_five(t: &mut Tape, st: &mut Stats) -> Result<(), String> {
    let shape = t.below(6);
    let sched_kind = t.below(3);
    let server: &[u8] = match shape {
        0 => b"HTTP/1.0 403 Forbidden\r\nConnection: close\r\n\r\nbody until close",
        1 => b"HTTP/1.1 500 X\r\nconnection: close\r\nconnection: close\r\n\r\nxx",
        2 => b"HTTP/1.0 200 OK\r\nConnection: close\r\nConnection: close\r\nX: y\r\n\r\n",
        3 => b"HTTP/1.1 403 F\r\n\r\nclose delimited after a bare refusal",
        4 => b"HTTP/1.0 404 N\r\nConnection: close\r\n\r\n",
        _ => b"HTTP/1.1 417 E\r\nConnection: close\r\nTransfer-Encoding: gzip\r\n\r\nzz",
    };
    // POST, HTTP/1.0, expect, connection: close, look
    let cfg = Cfg::decode([2, 1 | 2 | 8 | 16, (shape % 3) as u8, 0]);
    let sched: &[u8] = match sched_kind {
        0 => &[0],
        1 => &[1],
        _ => &[7, 3],
    };
    st.describe(|| json!({"stage": "five_conditions", "config": cfg.describe(), "server": String::from_utf8_lossy(server)}));
    st.class("five_close_conditions");
    run_one(&cfg, sched, server, true, st)
}

// ---------------------------------------------------------------------------------------------
// libFuzzer stage (thorough tier)

fn fuzz_stage(cfg: &RunCfg, st: &mut Stats) -> (Value, Vec<Violation>) {
    use std::process::Command;
    let fuzz_dir = cfg.verif_dir.join("harness").join("fuzz");
    let skip = |why: String| (json!({"stage": "libfuzzer", "ran": false, "reason": why}), vec![]);
    if cfg.tier != Tier::Thorough {
        return skip("thorough tier only".into());
    }
    if !fuzz_dir.join("Cargo.toml").exists() {
        return skip("fuzz package missing".into());
    }
    let runs: u64 = std::env::var("VERIF_FUZZ_RUNS").ok().and_then(|s| s.parse().ok()).unwrap_or(1_500_000);
    let workers = 8usize;
    let target_dir = fuzz_dir.join("target");
    let build = Command::new("cargo")
        .args(["+nightly", "fuzz", "build", "-O", "c12_exchange"])
        .current_dir(&fuzz_dir)
        .env("CARGO_NET_OFFLINE", "true")
        .env("CARGO_TARGET_DIR", &target_dir)
        .output();
    match build {
        Ok(o) if o.status.success() => {}
        Ok(o) => return skip(format!("cargo fuzz build failed: {}", String::from_utf8_lossy(&o.stderr).lines().rev().take(5).collect::<Vec<_>>().join(" | "))),
        Err(e) => return skip(format!("cargo fuzz not runnable: {}", e)),
    }
    let bin = target_dir.join("x86_64-unknown-linux-gnu/release/c12_exchange");
    if !bin.exists() {
        return skip(format!("fuzz binary not found at {}", bin.display()));
    }
    let work = cfg.verif_dir.join("harness/fuzz/work").join(format!("seed{}", cfg.seed));
    let _ = std::fs::remove_dir_all(&work);
    let mut viols = vec![];
    let mut total_execs = 0u64;
    let mut handles = vec![];
    for w in 0..workers {
        let corpus = work.join(format!("corpus{}", w));
        let arts = work.join(format!("artifacts{}", w));
        let _ = std::fs::create_dir_all(&corpus);
        let _ = std::fs::create_dir_all(&arts);
        // seed corpus: the committed golden exchanges
        if let Ok(rd) = std::fs::read_dir(fuzz_dir.join("seeds")) {
            for e in rd.flatten() {
                let _ = std::fs::copy(e.path(), corpus.join(e.file_name()));
            }
        }
        let mut cmd = Command::new(&bin);
        cmd.arg(&corpus)
            .arg(format!("-artifact_prefix={}/", arts.display()))
            .arg(format!("-dict={}", fuzz_dir.join("dict/http.dict").display()))
            .arg(format!("-runs={}", runs))
            .arg(format!("-seed={}", (cfg.seed.wrapping_mul(8) + w as u64 + 1) & 0x7fff_ffff))
            .arg("-max_len=8192")
            .arg("-len_control=0")
            .arg("-timeout=20")
            .arg("-rss_limit_mb=4096")
            .arg("-print_final_stats=1")
            .current_dir(&work);
        handles.push((w, arts, std::thread::spawn(move || cmd.output())));
    }
    for (w, arts, h) in handles {
        let out = match h.join() {
            Ok(Ok(o)) => o,
            _ => continue,
        };
        let err = String::from_utf8_lossy(&out.stderr).to_string();
        for line in err.lines() {
            if let Some(v) = line.strip_prefix("stat::number_of_executed_units:") {
                total_execs += v.trim().parse::<u64>().unwrap_or(0);
            }
        }
        if !out.status.success() {
            // an artifact is the reproducible unit
            if let Ok(rd) = std::fs::read_dir(&arts) {
                for e in rd.flatten() {
                    let bytes = std::fs::read(e.path()).unwrap_or_default();
                    let msg = match std::panic::catch_unwind(|| run_bytes(&bytes)) {
                        Ok(Ok(_)) => "libFuzzer reported a failure that does not reproduce in-process (timeout / OOM?)".to_string(),
                        Ok(Err(m)) => m,
                        Err(_) => "panic (see fuzz log)".to_string(),
                    };
                    let keep = cfg.verif_dir.join("replays").join(format!("C12-fuzz-seed{}-w{}-{}", cfg.seed, w, e.file_name().to_string_lossy()));
                    let _ = std::fs::create_dir_all(keep.parent().unwrap());
                    let _ = std::fs::copy(e.path(), &keep);
                    viols.push(Violation { stage: "libfuzzer".into(), mode: Mode::Scaled, tape: vec![], message: msg, desc: Some(json!({"artifact_hex": hex(&bytes[..bytes.len().min(4096)])})), from_file: Some(keep) });
                }
            }
        }
    }
    st.evals(total_execs);
    let _ = std::fs::remove_dir_all(&work);
    (json!({"stage": "libfuzzer", "ran": true, "workers": workers, "runs_per_worker": runs, "executions": total_execs, "violations": viols.len()}), viols)
}

pub fn replay_artifact(path: &std::path::Path) -> Result<String, String> {
    let bytes = std::fs::read(path).map_err(|e| e.to_string())?;
    match run_bytes(&bytes)? {
        Some(i) => Ok(format!("{:?}", i)),
        None => Ok("input too short to decode".into()),
    }
}

pub static DEF: PropDef = PropDef {
    id: "C12",
    rule: "enumeration 'alphabet': 14 (state, valid prefix) combinations - awaiting 100 / receiving the head at the start, after 'HTTP/1.1 ', \
after a complete status line (100, 403, 200), after a complete Location line; chunked body at a size line, inside chunk data, after the \
last-chunk line (on a redirect with an unresolvable Location), after 14 hex digits of a size line ('7fffffffffffff' and 'ffffffffffffff'); length-delimited body - each followed by EVERY string of length 0..6 \
(thorough 0..7) over a 10-symbol protocol alphabet for that state (e.g. '0 1 a F ; CR LF SP x 0xFF'), offered one-shot and byte by \
byte with 1..2-byte output buffers. random 'mutants': a valid exchange from C01's generator with 0..4 grammar-aware mutations (bit flip, \
deletion, duplication, splice from a second exchange, token insertion at line starts - CRLF, lone CR / LF, 18 hex digits, Connection: \
close, interim 100, bad Content-Length, unresolvable Location, NUL -, truncation, 100..140 extra fields, 64 KiB field names / values, \
oversize numbers, one field line repeated 2..12 times, CRLF turned into bare LF, 1..8 interim responses with or without fields in front, a field value reshaped into a list with blank / whitespace-only elements and stray commas), the request configuration of that exchange, a random arrival / buffer schedule. enumeration 'five': all five \
close conditions at once in six refusal shapes. thorough: libFuzzer (8 workers, dictionary, seed corpus, -max_len=8192) on the same \
driver and oracle. Oracle: every server-facing call returns (no panic; overflow checks on) with Err or consumed <= offered and \
produced <= space; produced bytes of a read are an in-order subsequence of the bytes it consumed; afterwards can_proceed / proceed / \
as_new_flow / head write of the followed flow / verdict queries return without panic; loops are bounded. non-trivial = input that is \
not accepted as a complete valid exchange and reaches at least the second server-facing call; distinct by hash of (configuration, \
schedule, server bytes).",
    assumptions: &[
        "a protocol-level stall (the library waiting for bytes a hostile server never sends) is not a violation",
        "libFuzzer campaigns are only approximately reproducible from a seed; the saved artifact is the reproducible unit",
    ],
    exec: exec_mutants,
    enums: &[
        EnumDef {
            name: "alphabet",
            count: |t: Tier| {
                let l = strlen(t);
                // strings of every length 0..=L: sum 10^k
                let per: u64 = (0..=l).map(|k| 10u64.pow(k)).sum();
                COMBOS.len() as u64 * per
            },
            tape: |t, idx| {
                let l = strlen(t);
                let per: u64 = (0..=l).map(|k| 10u64.pow(k)).sum();
                let combo = idx / per;
                let mut r = idx % per;
                let mut len = 0u32;
                while r >= 10u64.pow(len) {
                    r -= 10u64.pow(len);
                    len += 1;
                }
                vec![combo as u32, len, r as u32]
            },
            exhaustive: true,
            exec: Some(exec_alphabet),
        },
        EnumDef {
            name: "five",
            count: |_t: Tier| 18,
            tape: |_, idx| vec![(idx % 6) as u32, (idx / 6) as u32],
            exhaustive: true,
            exec: Some(exec_five),
        },
    ],
    randoms: &[RandomDef {
        name: "mutants",
        cases: |t: Tier| t.pick(200_000, 30_000_000),
        tape_len: 500,
        exec: None,
    }],
    extra: Some(fuzz_stage),
};

#[allow(dead_code)]
fn _m(_: &Method) {}
