//! C03 — chunked request body is a valid chunked encoding of exactly the consumed input.

use serde_json::{json, Value};

use crate::drive::sender::{pattern, with_out, Api, Kind, Sender};
use crate::infra::runner::{EnumDef, PropDef, RandomDef, Tier};
use crate::infra::stats::Stats;
use crate::infra::tape::Tape;
use crate::model::chunk::StrictDechunk;

#[derive(Clone, Copy, Debug)]
struct Op {
    input: usize,
    out: usize,
    /// before this write: 0 nothing, 1 read-only accessors, k >= 2 a direct-write report of k - 2 bytes (not applicable to a
    /// chunked body: whatever it answers, it must not change the body's state)
    pre: usize,
}

fn fit(k: usize) -> usize {
    // bytes a single chunk of k data bytes occupies
    k + format!("{:x}", k).len() + 4
}

struct Hist {
    api: Api,
    kind: Kind,
    ops: Vec<Op>,
    premature_advance: bool,
}

/// Interpret a history against the sender and the reference decoder side by side.
fn run_history(h: &Hist, st: &mut Stats) -> Result<(), String> {
    let mut s = Sender::new(h.api, h.kind)?;
    if let Some(c) = s.is_chunked() {
        if !c {
            return Err(format!("{:?}: body is not chunked", h.kind));
        }
    }
    let mut d = StrictDechunk::new();
    let mut sent = 0usize; // offset into the pattern: concatenation of the consumed prefixes
    let base = 17usize;
    let mut tight = false;
    let mut finish_seen = false;
    let mut calls = 0u64;
    for (i, op) in h.ops.iter().enumerate() {
        if op.pre == 1 {
            if s.is_chunked() == Some(false) {
                return Err(format!("op #{}: is_chunked() turned false", i));
            }
            let _ = s.max_input(op.out);
            st.class("accessor_mid_body");
        } else if op.pre >= 2 {
            let before = s.finished();
            let _ = s.direct(op.pre - 2);
            if s.finished() != before {
                return Err(format!("op #{}: consume_direct_write({}) on a chunked body changed finished from {} to {} (terminator emitted = {})", i, op.pre - 2, before, s.finished(), d.terminated));
            }
            st.class("direct_report_on_chunked");
        }
        let input = &pattern()[base + sent..base + sent + op.input];
        let was_terminated = d.terminated;
        let chunks_before = d.chunks.len();
        let res = with_out(op.out, |out| {
            s.write(input, out).map(|(c, p)| {
                let v = out[..p.min(out.len())].to_vec();
                (c, p, v)
            })
        });
        calls += 1;
        let at = |m: String| format!("op #{} (in = {}, out = {}): {}", i, op.input, op.out, m);
        match res {
            Err(e) => {
                if was_terminated && op.input > 0 {
                    // refused, as required; nothing is reported as consumed or emitted
                    st.class("refused_after_end");
                } else if was_terminated {
                    // "any further write emits nothing": a refusal emits nothing either. Whether an empty write on a finished
                    // body answers (0, 0) or an error is not stated
                    let _ = e;
                    st.class("empty_write_after_end_refused");
                } else {
                    // the statement does not speak about refusals before the end; the history stops here
                    st.class("early_err");
                    return Ok(());
                }
                if !s.finished() {
                    return Err(at("finished body no longer reported finished after a refused write".into()));
                }
            }
            Ok((c, p, bytes)) => {
                if c > op.input || p > op.out {
                    return Err(at(format!("counts out of range: consumed {}, produced {}", c, p)));
                }
                if was_terminated {
                    if op.input > 0 {
                        return Err(at(format!(
                            "non-empty write after the terminator was accepted (consumed {}, produced {})",
                            c, p
                        )));
                    }
                    if c != 0 || p != 0 {
                        return Err(at(format!(
                            "write after the terminator emitted {} bytes: {:?}",
                            p,
                            String::from_utf8_lossy(&bytes)
                        )));
                    }
                    st.class("empty_after_end");
                } else {
                    d.feed(&bytes).map_err(|e| {
                        at(format!(
                            "emitted bytes are not a valid chunk sequence: {} (call output {:?})",
                            e,
                            String::from_utf8_lossy(&bytes[..bytes.len().min(40)])
                        ))
                    })?;
                    if !d.at_boundary() {
                        return Err(at("call output ends inside a chunk".into()));
                    }
                    sent += c;
                    if d.data.len() != sent || d.data[..] != pattern()[base..base + sent] {
                        return Err(at(format!(
                            "chunk data ({} bytes) is not the concatenation of the consumed input ({} bytes)",
                            d.data.len(),
                            sent
                        )));
                    }
                    if d.terminated {
                        if op.input > 0 {
                            return Err(at(format!(
                                "terminating chunk emitted by a non-empty write (consumed {}, produced {:?})",
                                c,
                                String::from_utf8_lossy(&bytes[..bytes.len().min(40)])
                            )));
                        }
                        if d.chunks.len() != chunks_before {
                            return Err(at("finishing write emitted data chunks".into()));
                        }
                        finish_seen = true;
                    } else if op.input == 0 {
                        if p != 0 {
                            return Err(at(format!("empty write emitted {} bytes without terminating", p)));
                        }
                        if op.out >= 16 {
                            return Err(at("empty write with room did not emit the terminator".into()));
                        }
                        st.class("finish_no_room");
                    }
                    if op.input > 0 {
                        let left_after = op.out - p;
                        if left_after <= 5 && p > 0 && c < op.input {
                            tight = true;
                        }
                        if op.out < 6 {
                            tight = true;
                        }
                    }
                }
            }
        }
        let fin = s.finished();
        if fin != d.terminated {
            return Err(at(format!(
                "body reported finished = {} but terminator completely emitted = {}",
                fin, d.terminated
            )));
        }
    }
    st.evals(calls.max(1));

    // closing step: either a premature advance attempt, or finish and advance
    if h.premature_advance {
        let fin = s.finished();
        let adv = s.advance_ok();
        if adv != fin {
            return Err(format!("advancing = {} but finished = {}", adv, fin));
        }
        st.class("premature_advance");
    } else {
        if !d.terminated {
            let (c, p, bytes) = with_out(64, |out| s.write(&[], out).map(|(c, p)| (c, p, out[..p.min(64)].to_vec())))
                .map_err(|e| format!("closing empty write failed: {:?}", e))?;
            d.feed(&bytes).map_err(|e| format!("closing write invalid: {}", e))?;
            if c != 0 || !d.terminated || !s.finished() {
                return Err(format!(
                    "closing empty write with 64 bytes of room did not finish the body (produced {})",
                    p
                ));
            }
            finish_seen = true;
        }
        if d.data[..] != pattern()[base..base + sent] {
            return Err("final decoded body differs from the consumed input".into());
        }
        if !s.advance_ok() {
            return Err("finished body cannot advance".into());
        }
    }
    if tight {
        st.class("tight_space");
    }
    if tight && finish_seen {
        st.nontrivial(st.case_digest);
        if st.wants_sample() && h.ops.len() <= 6 {
            st.sample(hist_json(h));
        }
    }
    st.describe(|| hist_json(h));
    Ok(())
}

fn hist_json(h: &Hist) -> Value {
    json!({
        "api": format!("{:?}", h.api),
        "kind": format!("{:?}", h.kind),
        "ops_in_out_pre": h.ops.iter().map(|o| json!([o.input, o.out, o.pre])).collect::<Vec<_>>(),
        "premature_advance": h.premature_advance,
    })
}

fn decode_kind(t: &mut Tape) -> (Api, Kind) {
    match t.below(18) {
        0 => (Api::Flow, Kind::DefaultChunked),
        1 => (Api::Call, Kind::DefaultChunked),
        2 => (Api::Flow, Kind::ExplicitTe),
        3 => (Api::Call, Kind::ExplicitTe),
        4 => (Api::Flow, Kind::DespiteGet),
        5 => (Api::Flow, Kind::ExplicitTeAndHost),
        6 => (Api::Call, Kind::ExplicitTeAndHost),
        7 => (Api::Flow, Kind::ExplicitTeOtherCase(false)),
        8 => (Api::Call, Kind::ExplicitTeOtherCase(true)),
        9 => (Api::Flow, Kind::TeAndCl(4)),
        10 => (Api::Call, Kind::TeAndCl(4)),
        11 => (Api::Flow, Kind::TeTwoLinesAndCl(4)),
        12 => (Api::Flow, Kind::ViaAwait100 { saw_100: true }),
        13 => (Api::Flow, Kind::ViaAwait100 { saw_100: false }),
        14 => (Api::Flow, Kind::DespiteChunkedHeaderFirst),
        15 => (Api::Flow, Kind::DefaultChunkedExtraHeadWrites),
        16 => (Api::Flow, Kind::TeOtherCaseAndCl(4, false)),
        _ => (Api::Call, Kind::TeOtherCaseAndCl(4, true)),
    }
}

fn exec_random(t: &mut Tape, st: &mut Stats) -> Result<(), String> {
    let (api, kind) = decode_kind(t);
    let n = t.range(1, 40);
    let mut ops = Vec::with_capacity(n);
    for _ in 0..n {
        let input = match t.weighted(&[4, 2, 2, 1, 1, 2]) {
            0 => t.range(1, 40),
            1 => 0,
            2 => t.range(41, 400),
            3 => (10_240 * t.range(1, 2) + t.below(17)).saturating_sub(8),
            4 => t.range(400, 25_000),
            // around the hex-digit boundaries of the chunk size (and beyond: the chunk is then cut to fit)
            _ => (*t.pick(&[16usize, 256, 4096, 65_536]) + t.below(9)).saturating_sub(4),
        };
        let out = match t.weighted(&[3, 3, 2, 2, 2, 1]) {
            // relative to the pending input: around the exact fit
            0 => (fit(input.max(1)) + t.below(9)).saturating_sub(3),
            1 => t.below(13),
            2 => t.range(13, 64),
            // around multiples of chunk+overhead, where exactly 5 bytes can remain
            3 => (10_248 * t.range(0, 2) + t.below(17)).saturating_sub(3),
            4 => {
                // smaller than the input
                let k = input.max(2);
                t.range(1, k)
            }
            _ => 65_536,
        };
        let pre = match t.weighted(&[12, 2, 1]) {
            0 => 0,
            1 => 1,
            _ => 2 + t.below(3),
        };
        ops.push(Op { input, out, pre });
    }
    let premature_advance = t.chance(15);
    st.case_digest = t.digest();
    let h = Hist {
        api,
        kind,
        ops,
        premature_advance,
    };
    run_history(&h, st)
}

/// Small-scope grid: write(input, out) ; finish(fout) ; on a fresh sender.
fn exec_grid(t: &mut Tape, st: &mut Stats) -> Result<(), String> {
    let (api, kind) = decode_kind(t);
    let input = t.below(301);
    let out = t.below(301);
    let fout = t.below(9);
    st.case_digest = t.digest();
    let mut ops = vec![];
    if input > 0 {
        ops.push(Op { input, out, pre: 0 });
    } else {
        ops.push(Op { input: 0, out, pre: 0 });
    }
    ops.push(Op { input: 0, out: fout, pre: 0 });
    ops.push(Op { input: 0, out: fout, pre: 0 });
    ops.push(Op { input: 3, out: 64, pre: 0 });
    let h = Hist {
        api,
        kind,
        ops,
        premature_advance: false,
    };
    run_history(&h, st)
}

const GRID_IN_Q: u64 = 41;
const GRID_OUT_Q: u64 = 65;
const GRID_T: u64 = 301;

pub static DEF: PropDef = PropDef {
    id: "C03",
    rule: "random: histories of 1..40 body writes (input length, output length) on a chunked body through \
Flow<SendBody>::write or Call<WithBody>::write (default chunked / explicit TE / explicit TE and Host / despite-method / TE spelled Chunked or CHUNKED / TE next to a Content-Length / codings on two lines), input lengths \
{0 = finish, 1..40, 41..400, around 10240 and 20480, up to 25000, around 16 / 256 / 4096 / 65536}, output lengths {exact fit of the pending input -3..+5, \
0..12, 13..64, k*10248-3..+13, anything smaller than the input, 64 KiB}; occasionally preceded by read-only accessors or a (not applicable) direct-write report, which must leave the body's state alone; \
after every call the cumulative output is fed to \
an incremental strict chunk decoder and must be whole non-empty chunks whose data equals the concatenated consumed \
prefixes; terminator only from an empty write, at most once; finished() <=> terminator emitted; writes after the end: \
non-empty refused, empty (0,0) or refused - nothing emitted either way. enumeration 'grid': (input 0..40 [thorough 0..300]) x (output 0..64 [0..300]) x (finish \
output 0..8) x 18 api/kind combinations (incl. the body state reached through Await100, Transfer-Encoding added before send-body-despite-method, Transfer-Encoding in another case, on two lines, next to a Content-Length). non-trivial = history with a finish and a write that left <= 5 bytes of space with \
input pending or had an output < 6; distinct by decoded-choice digest.",
    assumptions: &[
        "an empty-input write is the end-of-body signal (documented), never a no-op probe",
        "a refusal (Err) before the end is not judged by this property; the history stops there",
        "only output[..n] of an Ok((_, n)) is inspected",
    ],
    exec: exec_random,
    enums: &[EnumDef {
        name: "grid",
        count: |t: Tier| 18 * 9 * t.pick(GRID_IN_Q * GRID_OUT_Q, GRID_T * GRID_T),
        tape: |tier, idx| {
            let (ni, no) = tier.pick((GRID_IN_Q, GRID_OUT_Q), (GRID_T, GRID_T));
            let k = idx % 18;
            let f = (idx / 18) % 9;
            let r = idx / 162;
            let _ = ni;
            vec![k as u32, (r / no) as u32, (r % no) as u32, f as u32]
        },
        exhaustive: true,
        exec: Some(exec_grid),
    }],
    randoms: &[RandomDef {
        name: "histories",
        cases: |t: Tier| t.pick(1_500_000, 60_000_000),
        tape_len: 220,
        exec: None,
    }],
    extra: None,
};
