//! C08 — length- and close-delimited response bodies arrive verbatim, never over-read.

use serde_json::json;
#[allow(unused_imports)]
use ureq_proto::http::Method;
use ureq_proto::BodyMode;

use crate::drive::recv::{Api, Reader};
use crate::drive::sender::{pattern, with_out};
use crate::infra::runner::{EnumDef, PropDef, RandomDef, Tier};
use crate::infra::stats::Stats;
use crate::infra::tape::Tape;

const NEXT: &[u8] = b"HTTP/1.1 200 OK\r\nContent-Length: 3\r\n\r\nabcTAIL";
/// bytes following the body in the window: a next response, a stray CRLF before one, arbitrary bytes
const TAILS: [&[u8]; 4] = [NEXT, b"\r\nHTTP/1.1 200 OK\r\nContent-Length: 0\r\n\r\n", b"\r\n\r\n\r\n", b"\x00\xff0\r\n\r\n"];

#[derive(Clone, Debug)]
struct Case {
    api: Api,
    /// None = close-delimited
    n: Option<u64>,
    /// (arrival increment, output size) per read
    steps: Vec<(usize, usize)>,
    req_v10: bool,
    resp_v10: bool,
    /// how the flow got to the head (drive::recv::Reader::new_route)
    route: usize,
    /// a field with an empty value precedes the Content-Length line
    empty_field: bool,
    /// 200, 404, or a redirect with a Location (only with a Content-Length: a redirect without framing has no body)
    status: u16,
    req_close: bool,
    resp_close: bool,
}

fn run(case: &Case, st: &mut Stats) -> Result<(), String> {
    let status = if case.n.is_none() && (300..400).contains(&case.status) { 200 } else { case.status };
    let is_redirect = (300..400).contains(&status);
    let decoration = format!(
        "{}{}{}",
        if is_redirect { "Location: /next\r\n" } else { "" },
        if case.resp_close { "Connection: close\r\n" } else { "" },
        if case.empty_field { "X-Empty:\r\n" } else { "" }
    );
    if case.empty_field {
        st.class("empty_valued_field_before_the_framing_header");
    }
    let head = match case.n {
        Some(n) => format!("HTTP/1.{} {} OK\r\n{}Content-Length: {}\r\nX-A: b\r\n\r\n", if case.resp_v10 { 0 } else { 1 }, status, decoration, n),
        None => format!("HTTP/1.{} {} OK\r\n{}X-A: b\r\n\r\n", if case.resp_v10 { 0 } else { 1 }, status, decoration),
    };
    // Content-Length: 0 has no body state on the Flow API (C06 owns that); the Call API still hands out a reader
    let api = if case.n == Some(0) { Api::Call } else { case.api };
    // a 3xx head offered in two pieces may be cut after its Location line, where the known finding K1 (C05) applies: not split here
    let route = if is_redirect && matches!(case.route, 4 | 6 | 7 | 8) {
        st.excluded(1);
        0
    } else {
        case.route
    };
    let mut r = match Reader::new_route(api, route, case.req_v10, case.req_close, head.as_bytes()) {
        Ok(r) => r,
        // Content-Length: 0 on the single-call API: no reader at all is as good as an already-ended one (nothing to deliver)
        Err(e) if case.n == Some(0) && api == Api::Call && e == "call has no body" => {
            st.class("zero_length_body_without_reader");
            return Ok(());
        }
        Err(e) => return Err(e),
    };
    if route > 0 && api == Api::Flow {
        st.class("body_reached_after_interim_100_or_split_head");
    }
    // the stream: body bytes (as many as we are willing to materialise) followed by a next response
    let body_avail: usize = match case.n {
        Some(n) => n.min(80_000) as usize,
        None => 60_000,
    };
    let off = 33usize;
    let body = &pattern()[off..off + body_avail];
    let finite = matches!(case.n, Some(n) if n <= 80_000);
    let tail: &[u8] = TAILS[(case.steps.len() + body_avail) % TAILS.len()];
    let stream_len = body_avail + if finite { tail.len() } else { 0 };
    let byte_at = |i: usize| -> u8 {
        if i < body_avail {
            body[i]
        } else {
            tail[i - body_avail]
        }
    };
    match (case.n, r.body_mode()) {
        (Some(n), Some(m)) if m != BodyMode::LengthDelimited(n) => return Err(format!("body_mode() = {:?} for Content-Length {}", m, n)),
        (None, Some(m)) if m != BodyMode::CloseDelimited => return Err(format!("body_mode() = {:?} for a response without framing", m)),
        _ => {}
    }
    if case.n.is_none() && !r.close_delimited() {
        return Err("close-delimited body not reported as such".into());
    }
    let mut consumed = 0usize;
    let mut arrived = 0usize;
    let mut left: Option<u64> = case.n;
    let mut reads = 0u32;
    let mut window_past_end = false;
    let mut win = Vec::new();
    for (i, (inc, osz)) in case.steps.iter().enumerate() {
        arrived = (arrived + inc).min(stream_len);
        if arrived < consumed {
            arrived = consumed;
        }
        win.clear();
        win.extend((consumed..arrived).map(byte_at));
        if finite && arrived > body_avail {
            window_past_end = true;
        }
        let (c, p, bytes) = with_out(*osz, |out| r.read(&win, out).map(|(c, p)| (c, p, out[..p.min(*osz)].to_vec())))
            .map_err(|e| format!("read #{} failed: {:?}", i, e))?;
        reads += 1;
        st.evals(1);
        let k = {
            let k = win.len().min(*osz);
            match left {
                Some(l) => k.min(l.min(usize::MAX as u64) as usize),
                None => k,
            }
        };
        if (c, p) != (k, k) {
            return Err(format!(
                "read #{} (window {}, space {}, remaining {:?}): expected ({k}, {k}), got ({c}, {p})",
                i,
                win.len(),
                osz,
                left
            ));
        }
        if bytes[..] != win[..k] {
            return Err(format!("read #{}: output differs from the input", i));
        }
        consumed += c;
        if let Some(l) = left.as_mut() {
            *l -= c as u64;
        }
        if finite && consumed > body_avail {
            return Err(format!("over-read: {} bytes consumed of a {}-byte body", consumed, body_avail));
        }
        match case.n {
            Some(_) => {
                let done = left == Some(0);
                if r.ended() != done {
                    return Err(format!("after read #{}: ended = {} with {:?} bytes remaining", i, r.ended(), left));
                }
                if let Some(cp) = r.can_proceed() {
                    if cp != done {
                        return Err(format!("after read #{}: can_proceed() = {} with {:?} bytes remaining", i, cp, left));
                    }
                }
            }
            None => {
                if r.can_proceed() == Some(false) {
                    return Err("close-delimited body: can_proceed() is false".into());
                }
                if r.ended() {
                    return Err("close-delimited body reported ended".into());
                }
            }
        }
    }
    // terminal checks through the Flow API: verdict of a close-delimited body is must-close
    if let Reader::Flow(f) = r {
        use ureq_proto::client::flow::RecvBodyResult;
        let done = case.n.is_none() || left == Some(0);
        match f.proceed() {
            None => {
                if done {
                    return Err("body complete but proceed() returned None".into());
                }
            }
            Some(res) => {
                if !done {
                    return Err(format!("proceed() succeeded with {:?} bytes remaining", left));
                }
                let c = match res {
                    RecvBodyResult::Cleanup(c) if !is_redirect => c,
                    RecvBodyResult::Redirect(r) if is_redirect => r.proceed(),
                    RecvBodyResult::Cleanup(_) => return Err(format!("{} response with a Location went to Cleanup", status)),
                    RecvBodyResult::Redirect(_) => return Err(format!("{} response went to Redirect", status)),
                };
                if case.n.is_none() && !c.must_close_connection() {
                    return Err("close-delimited body but the connection is not marked must-close".into());
                }
                if case.n.is_none() && c.close_reason().is_none() {
                    return Err("close-delimited body without a close reason".into());
                }
            }
        }
    }
    if case.n.is_none() {
        st.class("close_delimited");
    } else if left == Some(0) {
        st.class("length_completed");
    }
    if window_past_end {
        st.class("window_past_body_end");
    }
    if (window_past_end || case.n.is_none()) && reads >= 3 {
        st.nontrivial(st.case_digest);
        if st.wants_sample() && case.steps.len() <= 6 {
            st.sample(json!({"api": format!("{:?}", case.api), "content_length": case.n, "steps_arrival_out": case.steps}));
        }
    }
    st.describe(|| json!({"api": format!("{:?}", case.api), "content_length": case.n, "route_to_the_head": case.route, "empty_valued_field_before_content_length": case.empty_field, "status": case.status, "request_connection_close": case.req_close, "response_connection_close": case.resp_close, "req_http10": case.req_v10, "resp_http10": case.resp_v10, "steps_arrival_out": case.steps}));
    Ok(())
}

fn exec_random(t: &mut Tape, st: &mut Stats) -> Result<(), String> {
    let api = if t.bool() { Api::Call } else { Api::Flow };
    let n: Option<u64> = match t.weighted(&[4, 2, 3, 1, 2]) {
        0 => Some(t.range(0, 40) as u64),
        1 => Some(t.range(41, 3_000) as u64),
        2 => {
            const B: [u64; 8] = [255, 256, 4_096, 10_240, 65_535, 65_536, 69_999, 70_000];
            Some((*t.pick(&B) + t.below(5) as u64).saturating_sub(2))
        }
        3 => Some(*t.pick(&[(1u64 << 32) + 5, 1 << 63, u64::MAX])),
        _ => None,
    };
    let nsteps = t.range(1, 30);
    let cap = match n {
        Some(v) => v.min(80_000) as usize,
        None => 4_000,
    };
    let mut steps = vec![];
    let mut remaining = cap;
    for _ in 0..nsteps {
        let inc = match t.weighted(&[3, 2, 2, 2, 1]) {
            0 => t.range(0, 8),
            1 => remaining,                 // exactly up to the body end
            2 => remaining + t.range(1, 40), // past the body end
            3 => t.range(0, cap.max(1)),
            _ => 0,
        };
        let out = match t.weighted(&[3, 2, 2, 1, 1]) {
            0 => t.range(1, 8),
            1 => 65_536 + 30_000,
            2 => t.range(0, cap.max(1) + 10),
            3 => 0,
            _ => remaining.saturating_sub(t.below(3)),
        };
        remaining = remaining.saturating_sub(inc.min(out));
        steps.push((inc, out));
    }
    // closing steps: everything arrives, ample buffers
    if t.chance(70) {
        steps.push((200_000, 100_000));
        steps.push((0, 100_000));
        steps.push((0, 7));
    }
    let req_v10 = t.chance(15);
    let resp_v10 = t.chance(25);
    // the flow may have got to the head on another route: a late 100 in the same window as the head or before it, a 100 seen
    // while awaiting it, the head in two pieces
    let route = if t.chance(30) { *t.pick(&[1usize, 2, 3, 4, 6, 7, 8]) } else { 0 };
    // other statuses (a redirect body must be delivered like any other) and close conditions on either side
    let status = if t.chance(30) { *t.pick(&[404u16, 301, 302, 303, 307, 308, 300, 399]) } else { 200 };
    let req_close = t.chance(15);
    let resp_close = t.chance(15);
    let empty_field = t.chance(12);
    st.case_digest = t.digest();
    if (300..400).contains(&status) && n.is_some() && (req_close || resp_close || req_v10) {
        st.class("redirect_body_on_a_closing_connection");
    }
    run(&Case { api, n, steps, req_v10, resp_v10, route, empty_field, status, req_close, resp_close }, st)
}

/// Small-scope exhaustive: N in 0..=4 and close-delimited x all 3-step schedules over (arrival 0..3+, out 0..3).
fn exec_small(t: &mut Tape, st: &mut Stats) -> Result<(), String> {
    let api = if t.below(2) == 0 { Api::Flow } else { Api::Call };
    let n = match t.below(6) {
        5 => None,
        v => Some(v as u64),
    };
    const INC: [usize; 5] = [0, 1, 2, 3, 50];
    const OUT: [usize; 4] = [0, 1, 2, 64];
    let mut steps = vec![];
    for _ in 0..3 {
        let inc = INC[t.below(5)];
        let out = OUT[t.below(4)];
        steps.push((inc, out));
    }
    steps.push((100, 64));
    steps.push((0, 64));
    let steps_sum: usize = steps.iter().map(|s| s.0 + s.1).sum();
    st.case_digest = t.digest();
    run(&Case { api, n, steps, req_v10: false, resp_v10: false, route: [0usize, 1, 2, 3, 4, 6, 7, 8][(n.unwrap_or(5) as usize + steps_sum) % 8], empty_field: steps_sum % 5 == 2, status: [200u16, 302, 404, 307][steps_sum % 4], req_close: steps_sum % 3 == 1, resp_close: steps_sum % 7 < 2 }, st)
}

pub static DEF: PropDef = PropDef {
    id: "C08",
    rule: "random: Content-Length N in {0..40, 41..3000, around 255/256/4096/10240/65535/65536/70000, 2^32+5, 2^63, u64::MAX} or no \
framing (close-delimited) x histories of 1..30 reads (arrival increment, output size) with increments {0..8, exactly to the body \
end, past the body end into a following response, random, 0} and buffers {1..7, large, random, 0, remaining-0..2}, on \
Flow<RecvBody> and Call<RecvBody>, request/response versions 1.0/1.1; 30 % of the flows reach the head on another route (late 100 Continue in the same window as the head or in a call of its own, 100 seen while awaiting it, head in two pieces - cut in the middle or one, two, three bytes before its end) and the reported counts must add up to the bytes that precede the body. 30 % carry another status (404, 3xx with Location: a redirect body is delivered like any other), 15 % each a Connection: close on the request / the response; 12 % have a field with an empty value in front of the Content-Length line. Reference: every read returns (k,k), k = min(window, space, \
remaining) [no remaining term when close-delimited], bytes equal; never more than N consumed; ended/can_proceed <=> N delivered; \
close-delimited: can_proceed always, never ended, Cleanup verdict must-close with a reason. enumeration 'small': N in 0..=4 and \
close-delimited x all 3-read schedules over 5 increments x 4 buffer sizes x both APIs. non-trivial = history with >= 3 reads whose \
window extended past the body end (or close-delimited); distinct by decoded-choice digest.",
    assumptions: &[
        "bodies longer than 80000 bytes are only partially materialised; their end is never reached",
        "body_mode() is read before the first read (it reports the remaining length afterwards, as documented in the source)",
    ],
    exec: exec_random,
    enums: &[EnumDef {
        name: "small",
        count: |_t: Tier| 2 * 6 * 20 * 20 * 20,
        tape: |_, idx| crate::infra::runner::radix(idx, &[2, 6, 5, 4, 5, 4, 5, 4]),
        exhaustive: true,
        exec: Some(exec_small),
    }],
    randoms: &[RandomDef {
        name: "histories",
        cases: |t: Tier| t.pick(800_000, 40_000_000),
        tape_len: 160,
        exec: None,
    }],
    extra: None,
};
