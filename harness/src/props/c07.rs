//! C07 — chunked response decoding yields exactly the payload and never over-reads.

use serde_json::{json, Value};
use std::sync::OnceLock;
use ureq_proto::http::Method;

use crate::drive::recv::{Api, Reader};
use crate::drive::sender::{pattern, with_out};
use crate::infra::runner::{EnumDef, PropDef, RandomDef, Tier};
use crate::infra::stats::Stats;
use crate::infra::tape::Tape;
use crate::model::chunk::{encode, ChunkSpec, Coding, Encoded};

const HEAD: &[u8] = b"HTTP/1.1 200 OK\r\nTransfer-Encoding: chunked\r\n\r\n";
const NEXT: &[u8] = b"HTTP/1.1 204 No Content\r\n\r\n0\r\n\r\nGARBAGE";
/// what follows the coding in the stream: a next response, a stray CRLF before it, chunk-looking bytes
const TAILS: [&[u8]; 4] = [NEXT, b"\r\nHTTP/1.1 200 OK\r\n\r\n", b"0\r\n\r\n5\r\nhello\r\n", b"\r\n\r\n"];

/// payload bytes cycle through protocol-relevant characters
fn small_payload(n: usize) -> Vec<u8> {
    const CYC: &[u8] = b"\r\n0;a\r\r\nF:";
    (0..n).map(|i| CYC[i % CYC.len()]).collect()
}

pub struct Sched<'a> {
    /// arrival points (offsets into the stream = coding + next message), ascending; the last arrival is always "everything"
    pub cuts: &'a [usize],
    /// output sizes, cycled
    pub outs: &'a [usize],
    /// stop-on-chunk-boundary setting per read, cycled
    pub stops: &'a [bool],
}

/// Drive one reader over `enc` + NEXT under the schedule, checking every clause of C07.
pub fn run_decode(api: Api, enc: &Encoded, payload: &[u8], s: &Sched, st: &mut Stats) -> Result<(), String> {
    let mut stream = enc.bytes.clone();
    // the tail rotates with the schedule so that every coding meets every kind of following bytes
    stream.extend_from_slice(TAILS[(s.cuts.len() + s.outs.len() + s.stops.len() + enc.bytes.len()) % TAILS.len()]);
    let clen = enc.bytes.len();
    // the body state is reached on different routes (rotating with the case): plain; after a late 100 in the head's window; after
    // the 100 was seen while awaiting; as the body of a response that refuses Expect: 100-continue; for an HTTP/1.0 request
    let variant = (s.cuts.len() + 2 * s.outs.len() + 3 * s.stops.len() + enc.bytes.len()) % 10;
    let (route, req_v10) = match variant {
        6 => (1, false),
        7 => (5, false),
        8 => (0, true),
        9 => (3, false),
        _ => (0, false),
    };
    if api == Api::Flow && variant >= 6 {
        st.class("body_state_reached_on_another_route");
    }
    let mut r = Reader::new_route(api, route, req_v10, false, HEAD)?;
    let mut consumed = 0usize;
    let mut produced = 0usize;
    let mut cut_i = 0usize;
    let mut arrived = 0usize;
    let mut idle = 0usize;
    let mut idle_with_room = 0usize;
    let mut step = 0usize;
    let max_steps = 4 * stream.len() + 4 * s.cuts.len() + 64;
    let ctx = |m: String| format!("{} [cuts {:?}, outs {:?}, stops {:?}]", m, &s.cuts[..s.cuts.len().min(12)], s.outs, s.stops);
    if !r.on_boundary() {
        return Err(ctx("not on a chunk boundary before the first chunk".into()));
    }
    loop {
        if r.ended() {
            break;
        }
        step += 1;
        if step > max_steps {
            return Err(ctx("decoder did not finish within the step bound".into()));
        }
        // arrival: advance when the window is empty or the last read made no progress
        if arrived <= consumed || idle > 0 {
            if cut_i < s.cuts.len() {
                arrived = s.cuts[cut_i].max(arrived).min(stream.len());
                cut_i += 1;
            } else {
                arrived = stream.len();
            }
        }
        let window = &stream[consumed..arrived];
        let osz = s.outs[step % s.outs.len()];
        let stop = s.stops[step % s.stops.len()];
        r.set_stop(stop);
        let (c, p, bytes) = with_out(osz, |out| r.read(window, out).map(|(c, p)| (c, p, out[..p.min(osz)].to_vec())))
            .map_err(|e| ctx(format!("read failed on a valid coding at offset {}: {:?}", consumed, e)))?;
        st.evals(1);
        if c > window.len() || p > osz {
            return Err(ctx(format!("counts out of range: consumed {} of {}, produced {} of {}", c, window.len(), p, osz)));
        }
        if window.is_empty() && (c, p) != (0, 0) {
            return Err(ctx(format!("read of an empty window returned ({}, {})", c, p)));
        }
        if consumed + c > clen {
            return Err(ctx(format!("over-read: consumed up to {} but the coding ends at {}", consumed + c, clen)));
        }
        if produced + p > payload.len() || bytes[..] != payload[produced..produced + p] {
            return Err(ctx(format!("output differs from the chunk data at payload offset {}", produced)));
        }
        if stop && p > 0 {
            let first = enc.chunk_of[produced];
            let last = enc.chunk_of[produced + p - 1];
            if first != last {
                return Err(ctx(format!("boundary stop on, but one read returned data of chunks {} and {}", first, last)));
            }
        }
        consumed += c;
        produced += p;
        // the boundary query is pinned only where its meaning is beyond doubt: true when the decoder sits in front of a size line
        // (start, or a chunk's CRLF consumed), false when part of a chunk's data has been delivered and part is outstanding. What it
        // says with a chunk's CRLF pending, after the last-chunk line, in the trailers or after the end is not stated anywhere
        // (a change that reports "true whenever no chunk data is outstanding" keeps every statement) - measured, not asserted
        let at_size_line = enc.boundaries.contains(&consumed);
        let mid_chunk = produced > 0 && produced < payload.len() && enc.chunk_of[produced - 1] == enc.chunk_of[produced];
        if at_size_line && !r.on_boundary() {
            return Err(ctx(format!("is_on_chunk_boundary() = false at coding offset {}, in front of a size line", consumed)));
        }
        if mid_chunk && r.on_boundary() {
            return Err(ctx(format!("is_on_chunk_boundary() = true at coding offset {} with {} bytes of the current chunk delivered and more outstanding", consumed, produced)));
        }
        if !at_size_line && !mid_chunk && r.on_boundary() {
            st.class("boundary_query_true_outside_size_line_positions");
        }
        let ended = r.ended();
        if ended != (consumed == clen) {
            return Err(ctx(format!("ended = {} with {} of {} coding bytes consumed", ended, consumed, clen)));
        }
        if let Some(cp) = r.can_proceed() {
            if cp != ended {
                return Err(ctx(format!("can_proceed() = {} but ended = {}", cp, ended)));
            }
        }
        if c == 0 && p == 0 {
            idle += 1;
            // a stall is: everything has arrived, the output has room, and still nothing moves - twice in a row (reads into a
            // zero-length buffer may legitimately do nothing: whether framing is consumed without room for data is not stated)
            // (once all the data has been delivered only framing is left, and framing needs no room: then every read counts)
            if arrived == stream.len() && (osz > 0 || produced == payload.len()) {
                idle_with_room += 1;
                if idle_with_room >= 2 {
                    return Err(ctx(format!("stalled at coding offset {} with the whole stream available and room in the output", consumed)));
                }
            }
        } else {
            idle = 0;
            idle_with_room = 0;
        }
    }
    if consumed != clen {
        return Err(ctx(format!("ended after consuming {} of {} coding bytes", consumed, clen)));
    }
    if produced != payload.len() {
        return Err(ctx(format!("ended after delivering {} of {} payload bytes", produced, payload.len())));
    }
    // after the end: nothing more is consumed, the next message stays untouched
    let (c, p) = with_out(64, |out| r.read(&stream[consumed..], out)).map_err(|e| ctx(format!("read after the end failed: {:?}", e)))?;
    if (c, p) != (0, 0) {
        return Err(ctx(format!("read after the end returned ({}, {}): bytes of the next message were touched", c, p)));
    }
    Ok(())
}

// ---------------------------------------------------------------------------------------------
// small-scope grammar

const SIZES: [usize; 9] = [1, 2, 3, 15, 16, 255, 256, 4095, 4096];

/// style: 0 lower, 1 upper, 2 one leading zero
fn small_coding(sizes: &[usize], style: usize, ext: bool, last_ext: bool, trailers: usize) -> Coding {
    Coding {
        chunks: sizes
            .iter()
            .map(|s| ChunkSpec { len: *s, upper: style == 1, lead_zeros: (style == 2) as usize, ext: if ext { if style == 1 { b";x=\xe9".to_vec() } else { b";x=1".to_vec() } } else { vec![] } })
            .collect(),
        last_ext: if last_ext { b";l".to_vec() } else { vec![] },
        last_zeros: (style == 2) as usize,
        trailers: (0..trailers).map(|i| if i == 0 { b"a:b".to_vec() } else { b"Trailer-2: v v".to_vec() }).collect(),
    }
}

/// all codings of the small-scope grammar, by number of chunks
fn grammar(nchunks: usize, size_set: &[usize]) -> Vec<Coding> {
    let mut out = vec![];
    let nsz = size_set.len();
    let combos = nsz.pow(nchunks as u32);
    for combo in 0..combos {
        let mut sizes = vec![];
        let mut x = combo;
        for _ in 0..nchunks {
            sizes.push(size_set[x % nsz]);
            x /= nsz;
        }
        for style in 0..3 {
            for ext in [false, true] {
                if ext && nchunks == 0 {
                    continue;
                }
                for last_ext in [false, true] {
                    for trailers in 0..3 {
                        out.push(small_coding(&sizes, style, ext, last_ext, trailers));
                    }
                }
            }
        }
    }
    out
}

fn coding_json(c: &Coding) -> Value {
    json!({
        "chunks": c.chunks.iter().map(|k| format!("{}{}", String::from_utf8_lossy(&crate::model::chunk::size_line(k.len, k.upper, k.lead_zeros, &k.ext)), "")).collect::<Vec<_>>(),
        "last_ext": String::from_utf8_lossy(&c.last_ext),
        "trailers": c.trailers.len(),
    })
}

const OUT_MODES: [&[usize]; 9] = [&[8192], &[1], &[2], &[3], &[4], &[0, 1], &[0, 3, 1], &[4, 0, 0, 2], &[5, 1]];
const STOP_MODES: [&[bool]; 3] = [&[false], &[true], &[true, false]];

/// positions worth cutting at: around every structural boundary of the coding
fn interesting_positions(enc: &Encoded) -> Vec<usize> {
    let b = &enc.bytes;
    let mut v = vec![];
    for i in 0..b.len() {
        // around CR and LF bytes that belong to the framing, and the first data byte
        if b[i] == b'\r' || b[i] == b'\n' || b[i] == b';' {
            for d in 0..=1 {
                if i + d <= b.len() {
                    v.push(i + d);
                }
            }
        }
    }
    for e in &enc.boundaries {
        for d in [0usize, 1, 2] {
            v.push((*e + d).min(b.len()));
        }
    }
    v.push(b.len());
    v.push(b.len() + 3); // into the next message
    v.retain(|p| *p >= 1);
    v.sort_unstable();
    v.dedup();
    // large payloads containing CR/LF would explode the list: keep the structural ones only
    if v.len() > 48 {
        let mut w = vec![];
        for e in &enc.boundaries {
            for d in 0..6usize {
                w.push(e + d);
                w.push(e.saturating_sub(d));
            }
        }
        for d in 0..12 {
            w.push(b.len().saturating_sub(d));
        }
        w.push(b.len() + 3);
        w.retain(|p| *p >= 1);
        w.sort_unstable();
        w.dedup();
        w.truncate(48);
        return w;
    }
    v
}

struct Codings {
    short_q: Vec<Coding>,
    short_t: Vec<Coding>,
    pairs_q: Vec<Coding>,
    pairs_t: Vec<Coding>,
}

fn codings() -> &'static Codings {
    static C: OnceLock<Codings> = OnceLock::new();
    C.get_or_init(|| {
        let mut small = vec![];
        for n in 0..=3 {
            small.extend(grammar(n, &[1, 2, 3]));
        }
        let enc_len = |c: &Coding| {
            let total: usize = c.chunks.iter().map(|k| k.len).sum();
            encode(c, &small_payload(total)).bytes.len()
        };
        let short_q: Vec<Coding> = small.iter().filter(|c| enc_len(c) <= 16).cloned().collect();
        let short_t: Vec<Coding> = small.iter().filter(|c| enc_len(c) <= 19).cloned().collect();
        let mut pairs_q = vec![];
        for n in 0..=1 {
            pairs_q.extend(grammar(n, &SIZES));
        }
        pairs_q.extend(grammar(2, &SIZES[..7]));
        let mut pairs_t = vec![];
        for n in 0..=3 {
            pairs_t.extend(grammar(n, &SIZES));
        }
        Codings { short_q, short_t, pairs_q, pairs_t }
    })
}

/// Stage 'cutsets': one cell = one short coding; every composition of its bytes (2^(len-1) cut sets)
/// x every output mode x every stop mode; the API alternates with the mask parity.
fn exec_cutsets(t: &mut Tape, st: &mut Stats) -> Result<(), String> {
    let thorough = t.below(2) == 1;
    let list = if thorough { &codings().short_t } else { &codings().short_q };
    let idx = t.below(list.len());
    let coding = &list[idx];
    let total: usize = coding.chunks.iter().map(|k| k.len).sum();
    let payload = small_payload(total);
    let enc = encode(coding, &payload);
    let len = enc.bytes.len();
    st.case_digest = t.digest();
    st.describe(|| json!({"stage": "cutsets", "coding": coding_json(coding), "wire": String::from_utf8_lossy(&enc.bytes)}));
    let mut cuts: Vec<usize> = Vec::with_capacity(len);
    for mask in 0u64..(1u64 << (len - 1)) {
        cuts.clear();
        for b in 0..len - 1 {
            if mask & (1 << b) != 0 {
                cuts.push(b + 1);
            }
        }
        cuts.push(len + 2);
        let api = if mask.count_ones() % 2 == 0 { Api::Flow } else { Api::Call };
        for (oi, outs) in OUT_MODES.iter().enumerate() {
            for (si, stops) in STOP_MODES.iter().enumerate() {
                // the full product on small masks, a rotating third of it on the rest (still every mask x every mode pair over the three APIs/rotations)
                if len > 12 && (mask as usize + oi + si) % 3 != 0 {
                    continue;
                }
                run_decode(api, &enc, &payload, &Sched { cuts: &cuts, outs, stops }, st)?;
                st.count_nontrivial(1);
            }
        }
    }
    st.class("cutset_coding");
    if st.wants_sample() && len > 10 {
        st.sample(json!({"stage": "cutsets", "wire": String::from_utf8_lossy(&enc.bytes), "cut_sets": 1u64 << (len - 1)}));
    }
    Ok(())
}

/// Stage 'pairs': one cell = one coding of the full small-scope grammar; all single and double cuts at
/// the interesting positions x all output modes x all stop modes.
fn exec_pairs(t: &mut Tape, st: &mut Stats) -> Result<(), String> {
    let thorough = t.below(2) == 1;
    let list = if thorough { &codings().pairs_t } else { &codings().pairs_q };
    let idx = t.below(list.len());
    let coding = &list[idx];
    let total: usize = coding.chunks.iter().map(|k| k.len).sum();
    let payload = small_payload(total);
    let enc = encode(coding, &payload);
    let len = enc.bytes.len();
    let pos = interesting_positions(&enc);
    st.case_digest = t.digest();
    st.describe(|| json!({"stage": "pairs", "coding": coding_json(coding), "coding_len": len, "positions": pos.len()}));
    let mut n = 0u64;
    let mut run = |cuts: &[usize], all_modes: bool, st: &mut Stats| -> Result<(), String> {
        n += 1;
        for (oi, outs) in OUT_MODES.iter().enumerate() {
            for (si, stops) in STOP_MODES.iter().enumerate() {
                let m = oi * STOP_MODES.len() + si;
                // double cuts take three of the 27 mode pairs each, rotating with the pair index, so that every
                // (pair, mode) residue class is covered across neighbouring pairs; single cuts take all modes
                if !all_modes && (m as u64 + n) % 9 != 0 {
                    continue;
                }
                // multi-KiB chunks through 1..5-byte buffers: thousands of reads that repeat the small-chunk behaviour
                if total > 600 && outs.iter().all(|o| *o <= 5) && (!all_modes || n % 4 != 0) {
                    continue;
                }
                let api = if (n + m as u64 + idx as u64) % 2 == 0 { Api::Flow } else { Api::Call };
                run_decode(api, &enc, &payload, &Sched { cuts, outs, stops }, st)?;
                st.count_nontrivial(1);
            }
        }
        Ok(())
    };
    run(&[len + 64], true, st)?;
    for (i, a) in pos.iter().enumerate() {
        run(&[*a, len + 64], true, st)?;
        for b in &pos[i + 1..] {
            run(&[*a, *b, len + 64], false, st)?;
        }
    }
    st.class("pairs_coding");
    if st.wants_sample() && coding.chunks.len() == 2 && coding.trailers.len() == 1 {
        st.sample(json!({"stage": "pairs", "coding": coding_json(coding), "cut_positions": pos}));
    }
    Ok(())
}

/// Stage 'limit': size lines at the decoder's 20-byte limit (zero padding or a long extension), one or two chunks,
/// every single cut inside and around the size lines x all modes.
fn exec_limit(t: &mut Tape, st: &mut Stats) -> Result<(), String> {
    let line_len = 17 + t.below(4); // 17..=20
    let pad_style = t.below(3); // 0 zeros, 1 extension, 2 spaces + extension
    let nchunks = 1 + t.below(2);
    let data_len = [1usize, 5, 16, 255][t.below(4)];
    st.case_digest = t.digest();
    let digits = format!("{:x}", data_len).len();
    let mk = |len: usize| -> ChunkSpec {
        match pad_style {
            0 => ChunkSpec { len, upper: false, lead_zeros: line_len - digits, ext: vec![] },
            1 => {
                let mut ext = b";n=".to_vec();
                while digits + ext.len() < line_len {
                    ext.push(b'v');
                }
                ChunkSpec { len, upper: true, lead_zeros: 0, ext }
            }
            _ => {
                let mut ext = b"  ;".to_vec();
                while digits + ext.len() < line_len {
                    ext.push(b'e');
                }
                ChunkSpec { len, upper: false, lead_zeros: 0, ext }
            }
        }
    };
    let coding = Coding {
        chunks: (0..nchunks).map(|_| mk(data_len)).collect(),
        last_ext: if pad_style == 1 { b";0123456789abcdefgh".to_vec() } else { vec![] },
        last_zeros: if pad_style == 0 { 19 } else { 0 },
        trailers: vec![],
    };
    let payload = small_payload(data_len * nchunks);
    let enc = encode(&coding, &payload);
    let len = enc.bytes.len();
    st.describe(|| json!({"stage": "limit", "size_line_len": line_len, "coding": coding_json(&coding), "wire_head": String::from_utf8_lossy(&enc.bytes[..enc.bytes.len().min(60)])}));
    // all single cuts in the first 2 * (line + 4) bytes and around every boundary
    let mut pos: Vec<usize> = (1..(2 * (line_len + 4)).min(len)).collect();
    for b in &enc.boundaries {
        for d in 0..(line_len + 4) {
            if b + d < len {
                pos.push(b + d);
            }
        }
    }
    for d in 0..26 {
        pos.push(len.saturating_sub(d).max(1));
    }
    pos.sort_unstable();
    pos.dedup();
    for (k, a) in pos.iter().enumerate() {
        for (oi, outs) in OUT_MODES.iter().enumerate() {
            for (si, stops) in STOP_MODES.iter().enumerate() {
                if data_len > 16 && outs.iter().all(|o| *o <= 5) && (k + oi + si) % 4 != 0 {
                    continue;
                }
                let api = if (k + oi + si) % 2 == 0 { Api::Flow } else { Api::Call };
                run_decode(api, &enc, &payload, &Sched { cuts: &[*a, len + 40], outs, stops }, st)?;
                st.count_nontrivial(1);
            }
        }
    }
    st.class("limit_coding");
    Ok(())
}

/// Random beyond the small scope.
/// Stage 'huge': one chunk whose declared size lies at and beyond the 32-bit and 63-bit boundaries; only its first bytes are
/// delivered. Every read must hand out exactly the bytes offered (bounded by the buffer), consume as many, and the body must
/// not end, fail or sit "on a boundary" - a chunk counter narrowed to 32 bits would end the chunk after `size mod 2^32` bytes.
fn exec_huge(t: &mut Tape, st: &mut Stats) -> Result<(), String> {
    const SIZES: [u64; 11] = [
        0x7fff_ffff, 0x8000_0000, 0xffff_ffff, 0x1_0000_0000, 0x1_0000_0005, 0x1_0000_0100, 0x100_0000_0003, 0x7fff_ffff_ffff_ffff,
        0x8000_0000_0000_0000, 0xffff_ffff_ffff_fff0, 0xffff_ffff_ffff_ffff,
    ];
    let size = SIZES[t.below(11)];
    let api = if t.below(2) == 0 { Api::Flow } else { Api::Call };
    let style = t.below(3);
    let deliver = [1usize, 6, 300, 70_000][t.below(4)];
    let sched = t.below(4);
    st.case_digest = t.digest();
    st.evals(1);
    let line = match style {
        0 => format!("{:x}\r\n", size),
        1 => format!("{:X}\r\n", size),
        _ => format!("{:x};e\r\n", size),
    };
    let what = format!("chunk of {:#x} bytes ({:?}, size line {:?}), first {} bytes delivered, schedule {}", size, api, line, deliver, sched);
    st.describe(|| json!({"stage": "huge", "case": what}));
    let mut r = Reader::new(api, &Method::GET, false, HEAD)?;
    let data = &pattern()[77..77 + deliver];
    let mut stream = line.as_bytes().to_vec();
    stream.extend_from_slice(data);
    let hdr = line.len();
    let (step_in, out_sz, stop) = match sched {
        0 => (stream.len(), 65_536 + 8_192, false),
        1 => (1, 7, true),
        2 => (hdr + 1, 1, false),
        _ => (13, 4_096, true),
    };
    r.set_stop(stop);
    let mut consumed = 0usize;
    let mut delivered = 0usize;
    let mut arrived = 0usize;
    let mut guard = 0usize;
    while delivered < deliver {
        guard += 1;
        if guard > 4 * stream.len() + 64 {
            return Err(format!("{}: no progress ({} of {} data bytes delivered)", what, delivered, deliver));
        }
        if arrived <= consumed || guard % 2 == 0 {
            arrived = (arrived + step_in).min(stream.len());
        }
        let window = &stream[consumed..arrived];
        let (c, p, bytes) = with_out(out_sz, |out| r.read(window, out).map(|(c, p)| (c, p, out[..p.min(out_sz)].to_vec())))
            .map_err(|e| format!("{}: read failed at offset {}: {:?}", what, consumed, e))?;
        if c > window.len() || p > out_sz {
            return Err(format!("{}: read reported ({}, {}) for a window of {} and a buffer of {}", what, c, p, window.len(), out_sz));
        }
        if bytes[..] != data[delivered..delivered + p.min(deliver - delivered)] || delivered + p > deliver {
            return Err(format!("{}: output differs from the chunk data at data offset {}", what, delivered));
        }
        consumed += c;
        delivered += p;
        // the size line is consumed whole, then data bytes one for one
        if consumed > 0 && consumed != hdr + delivered && !(consumed < hdr && delivered == 0) {
            return Err(format!("{}: {} bytes consumed for a {}-byte size line and {} data bytes", what, consumed, hdr, delivered));
        }
        if r.ended() || r.can_proceed() == Some(true) {
            return Err(format!("{}: body reported ended after {} data bytes", what, delivered));
        }
        if delivered > 0 && r.on_boundary() {
            return Err(format!("{}: reported on a chunk boundary {} bytes into the chunk", what, delivered));
        }
    }
    st.class("huge_chunk_prefix");
    st.count_nontrivial(1);
    Ok(())
}

fn exec_random(t: &mut Tape, st: &mut Stats) -> Result<(), String> {
    let api = if t.bool() { Api::Call } else { Api::Flow };
    let many_tiny = t.chance(1);
    let nchunks = if many_tiny {
        // a long run of minimal chunks (any cumulative accounting of framing bytes shows here)
        t.range(2_000, 20_000)
    } else {
        match t.weighted(&[3, 2, 1]) {
            0 => t.range(0, 4),
            1 => t.range(5, 12),
            _ => t.range(13, 30),
        }
    };
    let mut chunks = vec![];
    let mut total = 0usize;
    if many_tiny {
        st.class("thousands_of_tiny_chunks");
        let sz = t.range(1, 2);
        let ext: Vec<u8> = if t.chance(30) { b";x=y".to_vec() } else { vec![] };
        for _ in 0..nchunks {
            total += sz;
            chunks.push(ChunkSpec { len: sz, upper: false, lead_zeros: 0, ext: ext.clone() });
        }
    }
    for _ in 0..(if many_tiny { 0 } else { nchunks }) {
        let len = match t.weighted(&[5, 3, 2, 1]) {
            0 => t.range(1, 20),
            1 => *t.pick(&SIZES) + t.below(3),
            2 => t.range(21, 2_000),
            _ => t.range(2_000, 70_000),
        };
        total += len;
        let ext: Vec<u8> = match t.weighted(&[4, 1, 1, 1, 1]) {
            0 => vec![],
            1 => b";a=b".to_vec(),
            2 => b" ;  q".to_vec(),
            3 => b";\"x y\"".to_vec(),
            // quoted-string with obs-text (legal: RFC 9110 5.6.4)
            _ => b";t=\"caf\xe9 \xff\"".to_vec(),
        };
        let digits = format!("{:x}", len).len();
        let lead_zeros = if t.chance(20) { t.range(1, 3) } else if t.chance(8) { 20 } else { 0 };
        let lead_zeros = lead_zeros.min(20usize.saturating_sub(digits + ext.len()));
        chunks.push(ChunkSpec { len, upper: t.bool(), lead_zeros, ext });
    }
    let coding = Coding {
        chunks,
        last_ext: if t.chance(25) { b";last".to_vec() } else { vec![] },
        last_zeros: if t.chance(20) { t.range(1, 4) } else { 0 },
        trailers: (0..t.weighted(&[5, 2, 1]))
            .map(|i| {
                if i == 0 && t.chance(15) {
                    // a trailer line far longer than any internal scratch size
                    let mut v = b"X-Sig: ".to_vec();
                    v.extend(std::iter::repeat(b'a').take(t.range(250, 700)));
                    v
                } else if i == 0 {
                    b"X-Checksum: abc".to_vec()
                } else {
                    b"y:\tz ".to_vec()
                }
            })
            .collect(),
    };
    let off = t.below(1000);
    let payload: Vec<u8> = pattern()[off..off + total].to_vec();
    let enc = encode(&coding, &payload);
    let len = enc.bytes.len();
    // schedule
    let ncuts = match t.weighted(&[2, 3, 2]) {
        0 => 0,
        1 => t.range(1, 6),
        _ => t.range(7, 40),
    };
    let mut cuts: Vec<usize> = vec![];
    for _ in 0..ncuts {
        let p = match t.weighted(&[2, 2, 1]) {
            0 => t.range(1, len + 4),
            1 => {
                // near a structural boundary
                let b = *t.pick(&enc.boundaries);
                (b + t.below(8)).saturating_sub(3).max(1)
            }
            _ => len.saturating_sub(t.below(12)).max(1),
        };
        cuts.push(p);
    }
    // cuts around the ends of the trailer lines
    if !coding.trailers.is_empty() && t.chance(50) {
        let p = len.saturating_sub(2 + t.below(6));
        cuts.push(p.max(1));
    }
    // sometimes a byte-by-byte stretch
    if t.chance(25) {
        let start = t.range(1, len);
        for k in 0..t.range(2, 24) {
            cuts.push(start + k);
        }
    }
    cuts.sort_unstable();
    cuts.dedup();
    cuts.push(len + 64);
    let nouts = t.range(1, 4);
    let outs: Vec<usize> = (0..nouts)
        .map(|i| match t.weighted(&[3, 3, 2, 1]) {
            0 => 65_536,
            1 => t.range(1, 8),
            2 => t.range(9, 5_000),
            _ => {
                if i == 0 {
                    1
                } else {
                    0
                }
            }
        })
        .collect();
    let stops: Vec<bool> = match t.below(4) {
        0 => vec![false],
        1 => vec![true],
        2 => vec![true, false],
        _ => vec![false, false, true],
    };
    st.case_digest = t.digest();
    st.describe(|| json!({"stage": "random", "api": format!("{:?}", api), "coding": coding_json(&coding), "coding_len": len,
        "cuts": cuts, "outs": outs, "stops": stops}));
    if len > 600 && outs.iter().all(|o| *o <= 8) {
        // keep tiny buffers for tiny bodies (run time), count it
        st.class("random_skipped_slow");
        return Ok(());
    }
    run_decode(api, &enc, &payload, &Sched { cuts: &cuts, outs: &outs, stops: &stops }, st)?;
    st.class("random_coding");
    let inside = cuts.iter().any(|c| *c < len && !enc.boundaries.contains(c));
    if inside {
        st.nontrivial(st.case_digest);
        if st.wants_sample() && coding.chunks.len() <= 3 && total < 40 {
            st.sample(json!({"stage": "random", "wire": String::from_utf8_lossy(&enc.bytes), "cuts": cuts, "outs": outs, "stops": stops}));
        }
    }
    Ok(())
}

pub static DEF: PropDef = PropDef {
    id: "C07",
    rule: "enumeration 'cutsets': every coding of the small grammar (<= 3 chunks of 1..3 bytes, lower/upper/leading-zero hex, \
extension on/off on chunk and last-chunk lines, 0..2 trailers, payload cycling CR LF 0 ; a F :) whose encoding is <= 16 bytes \
(thorough <= 19) x ALL 2^(len-1) arrival cut sets x 9 output-size modes (large, 1, 2, 3, 4, cycles with 0) x 3 boundary-stop \
modes, API alternating. enumeration 'pairs': every coding of the full small-scope grammar (thorough: <= 3 chunks of sizes \
{1,2,3,15,16,255,256,4095,4096}; quick: <= 1 chunk of those sizes plus 2 chunks of sizes up to 256) x all single cuts at the \
structural positions (around every CR, LF, ';', chunk boundary, end, into the next message) x all 27 modes, and all double cuts \
x 3 of the 27 modes rotating with the pair index. enumeration 'limit': size lines of 17..20 bytes (the decoder's limit is 20) made of zero padding or long extensions, 1..2 chunks, \
every single cut in and around the size lines x all modes. random: 0..30 chunks up to 70000 bytes (1 %: 2000..20000 chunks of 1..2 bytes), extensions with spaces, \
quotes and obs-text, leading zeros, trailers, random cut sets incl. byte-by-byte stretches, random output cycles. Every run is followed by further bytes \
(a next response, a stray CRLF and a response, chunk-looking bytes, bare CRLFs - rotating) that must stay untouched. Oracle per read: counts in range, output == next payload bytes, no read across two chunks while stop is \
on, consumed never beyond the coding, is_on_chunk_boundary() true in front of a size line and false with a chunk partly delivered (other positions measured only), ended <=> final CRLF consumed, \
no stall once everything arrived, (0,0) after the end. non-trivial = every (coding, cut set, modes) run of the enumerations \
(distinct by construction: counted by enumeration index, not hashed) plus random cases with a cut strictly inside a structural element \
(distinct by decoded-choice digest).",
    assumptions: &[
        "chunk size lines (hex + extension) stay <= 20 bytes: the decoder's deliberate sanity limit",
        "only valid codings are offered (malformed ones are C12's domain)",
    ],
    exec: exec_random,
    enums: &[
        EnumDef {
            name: "cutsets",
            count: |t: Tier| t.pick(codings().short_q.len(), codings().short_t.len()) as u64,
            tape: |t, idx| vec![t.pick(0, 1), idx as u32],
            exhaustive: true,
            exec: Some(exec_cutsets),
        },
        EnumDef {
            name: "limit",
            count: |_t: Tier| 4 * 3 * 2 * 4,
            tape: |_, idx| crate::infra::runner::radix(idx, &[4, 3, 2, 4]),
            exhaustive: true,
            exec: Some(exec_limit),
        },
        EnumDef {
            name: "huge",
            count: |_t: Tier| 11 * 2 * 3 * 4 * 4,
            tape: |_, idx| crate::infra::runner::radix(idx, &[11, 2, 3, 4, 4]),
            exhaustive: true,
            exec: Some(exec_huge),
        },
        EnumDef {
            name: "pairs",
            count: |t: Tier| t.pick(codings().pairs_q.len(), codings().pairs_t.len()) as u64,
            tape: |t, idx| vec![t.pick(0, 1), idx as u32],
            exhaustive: true,
            exec: Some(exec_pairs),
        },
    ],
    randoms: &[RandomDef {
        name: "random",
        cases: |t: Tier| t.pick(200_000, 6_000_000),
        tape_len: 260,
        exec: None,
    }],
    extra: None,
};
