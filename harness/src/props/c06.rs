//! C06 — response body framing follows the HTTP/1.1 message-body-length rules.

use serde_json::json;
use ureq_proto::client::flow::RecvResponseResult;
use ureq_proto::http::Method;
use ureq_proto::BodyMode;

use crate::drive::recv::{call_recv, flow_recv, METHODS};
use crate::infra::runner::{radix, EnumDef, PropDef, RandomDef, Tier};
use crate::infra::stats::Stats;
use crate::infra::tape::Tape;
use crate::model::head::{gen_ows, gen_plain_fields, Field, RespHead};

pub use crate::model::framing::{framing_table, te_lines, ClClass, Expect, Framing, CL_VALUES, TE_VALUES};

fn matches(e: &Expect, got: Framing) -> bool {
    match e {
        Expect::Err => false,
        Expect::Is(f) => *f == got,
        Expect::OneOf(fs) => fs.contains(&got),
        Expect::Any => true,
    }
}

fn mode_to_framing(m: BodyMode) -> Framing {
    match m {
        BodyMode::NoBody => Framing::None,
        BodyMode::Chunked => Framing::Chunked,
        BodyMode::LengthDelimited(n) => Framing::Length(n),
        BodyMode::CloseDelimited => Framing::Close,
    }
}

pub struct Cell {
    pub method: Method,
    pub status: u16,
    pub resp_v11: bool,
    pub cl_idx: usize,
    pub te_idx: usize,
    pub head: RespHead,
}

fn check_cell(c: &Cell, st: &mut Stats) -> Result<(), String> {
    let (_, cl) = CL_VALUES[c.cl_idx];
    let (_, te_chunked) = TE_VALUES[c.te_idx];
    let te_present = c.te_idx != 0;
    let expect = framing_table(&c.method, c.status, c.resp_v11, cl, te_present, te_chunked);
    let wire = c.head.bytes();
    let what = || format!("{} {} HTTP/1.{} CL={:?} TE={:?}", c.method, c.status, c.resp_v11 as u8, if c.cl_idx == 0 { None } else { Some(CL_VALUES[c.cl_idx].0) }, if te_present { Some(TE_VALUES[c.te_idx].0) } else { None });
    st.evals(2);
    match expect {
        Expect::Any => st.class("dont_care_any"),
        Expect::OneOf(_) => st.class("dont_care_3xx_te"),
        Expect::Err => st.class("expect_err"),
        Expect::Is(_) => {}
    }

    // ---- Flow API
    let mut f = flow_recv(&c.method, false, &[])?;
    match f.try_response(&wire) {
        Err(e) => {
            if !matches!(expect, Expect::Err | Expect::Any) {
                return Err(format!("{}: flow refused the head: {:?} (expected {:?})", what(), e, expect));
            }
        }
        Ok((n, None)) => {
            if c.status != 100 {
                return Err(format!("{}: flow returned no response (consumed {})", what(), n));
            }
        }
        Ok((n, Some(_))) => {
            if n != wire.len() {
                return Err(format!("{}: flow consumed {} of {}", what(), n, wire.len()));
            }
            if matches!(expect, Expect::Err) {
                return Err(format!("{}: non-numeric Content-Length accepted by the flow", what()));
            }
            match f.proceed() {
                // an interim 100 that nobody asked for is handed to the caller and the flow keeps waiting for the real response:
                // whether such a head is an error, is skipped or is handed out is not stated anywhere (don't-care cell)
                None if c.status == 100 => st.class("status_100_handed_out_flow_keeps_waiting"),
                None => return Err(format!("{}: flow cannot proceed after the head", what())),
                Some(RecvResponseResult::RecvBody(b)) => {
                    let got = mode_to_framing(b.body_mode());
                    if !matches(&expect, got) {
                        return Err(format!("{}: body state with {:?}, expected {:?}", what(), got, expect));
                    }
                    if matches!(got, Framing::None | Framing::Length(0)) {
                        return Err(format!("{}: body state entered although no body bytes are expected ({:?})", what(), got));
                    }
                }
                Some(other) => {
                    let is_redirect_state = matches!(other, RecvResponseResult::Redirect(_));
                    // no body state: legal iff the expected framing is none or length 0
                    let ok = matches(&expect, Framing::None) || matches(&expect, Framing::Length(0));
                    if !ok {
                        return Err(format!("{}: no body state, expected {:?}", what(), expect));
                    }
                    let want_redirect = (300..400).contains(&c.status) && c.status != 304;
                    if is_redirect_state != want_redirect {
                        return Err(format!("{}: successor is {} but status {} {} a redirect", what(), if is_redirect_state { "Redirect" } else { "Cleanup" }, c.status, if want_redirect { "is" } else { "is not" }));
                    }
                }
            }
        }
    }

    // ---- Call API
    let mut call = call_recv(&c.method, false)?;
    match call.try_response(&wire) {
        Err(e) => {
            if !matches!(expect, Expect::Err | Expect::Any) {
                return Err(format!("{}: call refused the head: {:?} (expected {:?})", what(), e, expect));
            }
        }
        Ok(None) => return Err(format!("{}: call returned no response", what())),
        Ok(Some((n, _))) => {
            if n != wire.len() {
                return Err(format!("{}: call consumed {} of {}", what(), n, wire.len()));
            }
            if matches!(expect, Expect::Err) {
                // "a non-numeric Content-Length is an error": on the single-call API the error may come with the head or when
                // the body is asked for (both are observation points of the statement); it must come
                match call.into_body() {
                    Err(_) => {
                        st.class("bad_content_length_reported_by_into_body");
                        return Ok(());
                    }
                    Ok(_) => return Err(format!("{}: non-numeric Content-Length accepted by the call", what())),
                }
            }
            if c.status != 100 {
                match call.into_body() {
                    // in a don't-care cell the library may reject, and on this API it may do so when the body is asked for
                    Err(_) if matches!(expect, Expect::Any) => {}
                    Err(e) => return Err(format!("{}: into_body failed: {:?}", what(), e)),
                    Ok(None) => {
                        // "the state after the head is the body state exactly when a non-empty body is expected": for a declared
                        // length of 0 the single-call API may hand out an already-ended reader or none at all
                        if !matches(&expect, Framing::None) && !matches(&expect, Framing::Length(0)) {
                            return Err(format!("{}: into_body() is None, expected {:?}", what(), expect));
                        }
                    }
                    Ok(Some(mut b)) => {
                        // identify the mode by behaviour: a probe that is a complete one-chunk coding
                        let probe = b"1\r\nA\r\n0\r\n\r\n";
                        let mut out = [0u8; 32];
                        let got = if b.is_close_delimited() {
                            Framing::Close
                        } else if b.is_ended() {
                            Framing::Length(0)
                        } else {
                            // whether reads stop at chunk boundaries by default is not stated anywhere: the probe is read in as many
                            // calls as the reader wants (a chunked reader ends after delivering exactly "A" and consuming the probe)
                            let first = b.read(probe, &mut out);
                            let first = match first {
                                Ok((i, 1)) if i < probe.len() && out[0] == b'A' && !b.is_ended() => {
                                    let mut used = i;
                                    let mut extra_out = 0;
                                    for _ in 0..4 {
                                        if b.is_ended() || used == probe.len() {
                                            break;
                                        }
                                        match b.read(&probe[used..], &mut out[1..]) {
                                            Ok((i2, o2)) => {
                                                used += i2;
                                                extra_out += o2;
                                                if i2 == 0 {
                                                    break;
                                                }
                                            }
                                            Err(e) => return Err(format!("{}: probe read failed: {:?}", what(), e)),
                                        }
                                    }
                                    if extra_out == 0 && used == probe.len() {
                                        Ok((used, 1))
                                    } else {
                                        Ok((i, 1))
                                    }
                                }
                                other => other,
                            };
                            match first {
                                Ok((i, 1)) if i == probe.len() && out[0] == b'A' && b.is_ended() => Framing::Chunked,
                                Ok((i, o)) if i == o && out[..o] == probe[..o] => {
                                    // length-delimited: the count is min(n, |probe|)
                                    match expect {
                                        Expect::Is(Framing::Length(n)) if (n.min(probe.len() as u64) as usize) == i => Framing::Length(n),
                                        _ => Framing::Length(i as u64),
                                    }
                                }
                                other => return Err(format!("{}: probe read returned {:?}", what(), other)),
                            }
                        };
                        if !matches(&expect, got) {
                            return Err(format!("{}: call body behaves as {:?}, expected {:?}", what(), got, expect));
                        }
                    }
                }
            }
        }
    }

    // non-trivial: two framing signals compete, or a no-body clause overrides a framing header
    let signals = (c.cl_idx != 0) as u8 + te_present as u8;
    let no_body_clause = c.method == Method::HEAD || (c.method == Method::CONNECT && (200..300).contains(&c.status)) || (100..200).contains(&c.status) || c.status == 204 || c.status == 304;
    if !matches!(expect, Expect::Any) && (signals == 2 || (signals >= 1 && no_body_clause)) {
        st.class("competing_signals");
        st.count_nontrivial(1);
        if st.wants_sample() && c.status % 97 == 10 && c.cl_idx % 5 == 2 {
            st.sample(json!({"cell": what(), "expected": format!("{:?}", expect)}));
        }
    }
    Ok(())
}

fn build_head(status: u16, resp_v11: bool, cl_idx: usize, te_idx: usize) -> RespHead {
    let mut fields = vec![Field::new("X-Pad", "1")];
    if cl_idx != 0 {
        fields.push(Field::new("Content-Length", CL_VALUES[cl_idx].0));
    }
    if te_idx != 0 {
        for line in te_lines(te_idx) {
            fields.push(Field::new("Transfer-Encoding", line));
        }
    }
    RespHead { v11: resp_v11, status, reason: Some(b"R".to_vec()), fields }
}

const BASES: [u64; 5] = [9, 900, 2, 17, 13];

fn exec_table(t: &mut Tape, st: &mut Stats) -> Result<(), String> {
    let m = t.below(9);
    let status = 100 + t.below(900) as u16;
    let resp_v11 = t.below(2) == 1;
    let cl_idx = t.below(17);
    let te_idx = t.below(13);
    st.describe(|| json!({"method": METHODS[m].as_str(), "status": status, "resp_v11": resp_v11, "content_length": if cl_idx == 0 { None } else { Some(CL_VALUES[cl_idx].0) }, "transfer_encoding": if te_idx == 0 { None } else { Some(TE_VALUES[te_idx].0) }}));
    let cell = Cell { method: METHODS[m].clone(), status, resp_v11, cl_idx, te_idx, head: build_head(status, resp_v11, cl_idx, te_idx) };
    check_cell(&cell, st)
}

/// Random decorated heads: same cells, but field order, name case, OWS and surrounding fields vary.
fn exec_decorated(t: &mut Tape, st: &mut Stats) -> Result<(), String> {
    let m = t.below(9);
    let status = match t.weighted(&[3, 2, 2]) {
        0 => *t.pick(&[200u16, 204, 304, 301, 302, 307, 404, 101, 199, 299, 300, 399, 500, 999]),
        1 => t.range(300, 399) as u16,
        _ => t.range(101, 999) as u16,
    };
    let resp_v11 = !t.chance(30);
    let cl_idx = if t.chance(60) { t.range(1, 16) } else { 0 };
    let te_idx = if t.chance(60) { t.range(1, 10) } else { 0 };
    let nplain = t.range(0, 6);
    let mut fields = gen_plain_fields(t, nplain, false);
    let mut special = vec![];
    if cl_idx != 0 {
        let mut f = Field::new(*t.pick(&["Content-Length", "content-length", "CONTENT-LENGTH"]), CL_VALUES[cl_idx].0);
        f.ows_l = gen_ows(t);
        // trailing whitespace only on numeric values (it is stripped); keeps Bad values bad for their own reason
        if t.chance(30) {
            f.ows_r = gen_ows(t);
        }
        special.push(f);
    }
    let mut te_fields = vec![];
    if te_idx != 0 {
        for line in te_lines(te_idx) {
            let mut f = Field::new(*t.pick(&["Transfer-Encoding", "transfer-encoding", "TRANSFER-ENCODING"]), line);
            f.ows_l = gen_ows(t);
            te_fields.push(f);
        }
        special.push(te_fields.remove(0));
    }
    if special.len() == 2 && t.bool() {
        special.swap(0, 1);
    }
    let mut te_at = None;
    for s in special {
        let i = t.below(fields.len() + 1);
        if s.lname() == "transfer-encoding" {
            te_at = Some(i);
        } else if let Some(p) = te_at.as_mut() {
            if i <= *p {
                *p += 1;
            }
        }
        fields.insert(i, s);
    }
    // further lines of the same field: somewhere after the first one (the order of the lines of one name is significant)
    if let Some(mut p) = te_at {
        for f in te_fields {
            p = p + 1 + t.below(fields.len() - p);
            fields.insert(p, f);
        }
    }
    if t.chance(30) {
        fields.push(Field::new("Connection", *t.pick(&["close", "keep-alive"])));
    }
    if (300..400).contains(&status) && t.chance(70) {
        fields.push(Field::new("Location", "/next"));
    }
    let head = RespHead { v11: resp_v11, status, reason: crate::model::head::gen_reason(t), fields };
    st.case_digest = t.digest();
    st.describe(|| json!({"method": METHODS[m].as_str(), "head": String::from_utf8_lossy(&head.bytes())}));
    let cell = Cell { method: METHODS[m].clone(), status, resp_v11, cl_idx, te_idx, head };
    st.class("decorated");
    check_cell(&cell, st)
}

/// Stage 'paths': the table must hold however the flow reached the response: request version 1.0 / 1.1, after an Expect
/// handshake (100 seen, refused by this very response, 100 arriving late), with a body sent despite the method.
fn exec_paths(t: &mut Tape, st: &mut Stats) -> Result<(), String> {
    use crate::drive::exchange::{check_against_truth, run_exchange, AwaitMode, ExchangeSpec, Outcome, ReqConn, ReqFraming, RespSpec, Sched, ServerPre};
    let req_v10 = t.chance(35);
    let method = if req_v10 { [Method::GET, Method::HEAD, Method::POST][t.below(3)].clone() } else { METHODS[t.below(9)].clone() };
    let status = match t.weighted(&[3, 2, 2]) {
        0 => *t.pick(&[200u16, 201, 204, 205, 206, 304, 301, 302, 307, 404, 101, 199, 299, 300, 399, 500, 999]),
        1 => t.range(300, 399) as u16,
        _ => t.range(101, 999) as u16,
    };
    let resp_v11 = !t.chance(35);
    // numeric / absent Content-Length, any Transfer-Encoding value of the table
    let cl: Option<u64> = match t.weighted(&[3, 2, 3]) {
        0 => None,
        1 => Some(0),
        _ => Some(t.range(1, 40) as u64),
    };
    let te_idx = if t.chance(50) { t.range(1, 10) } else { 0 };
    let (_, te_chunked) = TE_VALUES[te_idx];
    let route = t.below(5); // 0 plain, 1 Expect + 100 seen, 2 Expect refused by this response, 3 late 100, 4 body despite the method
    let takes_body = crate::drive::recv::needs_body(&method);
    let despite = route == 4 || (route != 0 && !takes_body);
    let expect = (1..=3).contains(&route);
    let clc = match cl {
        None => ClClass::Absent,
        Some(n) => ClClass::Num(n),
    };
    let framing = match framing_table(&method, status, resp_v11, clc, te_idx != 0, te_chunked) {
        Expect::Is(f) => f,
        _ => {
            st.class("paths_skipped_dont_care");
            return Ok(());
        }
    };
    let mut fields = vec![Field::new("X-Pad", "1")];
    if let Some(n) = cl {
        fields.push(Field::new("Content-Length", &n.to_string()));
    }
    if te_idx != 0 {
        for line in te_lines(te_idx) {
            fields.push(Field::new("Transfer-Encoding", line));
        }
    }
    if (300..400).contains(&status) && t.bool() {
        fields.push(Field::new("Location", "/l"));
    }
    if t.chance(40) {
        let i = t.below(fields.len() + 1);
        let f = fields.remove(i.min(fields.len() - 1));
        fields.push(f);
    }
    let (payload, body_wire, close_delimited): (Vec<u8>, Vec<u8>, bool) = match framing {
        Framing::None | Framing::Length(0) => (vec![], vec![], false),
        Framing::Length(n) => {
            let p: Vec<u8> = (0..n as usize).map(|i| b'a' + (i % 26) as u8).collect();
            (p.clone(), p, false)
        }
        Framing::Chunked => (b"chunked payload".to_vec(), b"7\r\nchunked\r\n8;e\r\n payload\r\n0\r\n\r\n".to_vec(), false),
        Framing::Close => (b"until close".to_vec(), b"until close".to_vec(), true),
    };
    let spec = ExchangeSpec {
        method: method.clone(),
        req_v10,
        uri: "http://h.test/p".into(),
        req_conn: ReqConn::Absent,
        expect,
        despite,
        req_framing: *t.pick(&[ReqFraming::Auto, ReqFraming::Cl]),
        extra_headers: vec![],
        body: b"req-body".to_vec(),
        await_mode: if route == 3 { AwaitMode::NeverLook } else { AwaitMode::Look },
        server_pre: match route {
            1 | 3 => ServerPre::Continue(b"HTTP/1.1 100 Continue\r\n\r\n".to_vec()),
            2 => ServerPre::Refuse,
            _ => ServerPre::Silent,
        },
        resp: RespSpec { head: RespHead { v11: resp_v11, status, reason: Some(b"R".to_vec()), fields }, body_wire, payload, close_delimited },
        prep: 0,
    };
    st.case_digest = t.digest();
    st.describe(|| crate::drive::exgen::spec_json(&spec));
    st.evals(1);
    let stream = spec.stream();
    let what = format!("{} (request 1.{}) route {} -> {} HTTP/1.{} CL={:?} TE={:?}", method, if req_v10 { 0 } else { 1 }, ["plain", "expect+100", "expect-refused", "late-100", "despite-method"][route], status, resp_v11 as u8, cl, if te_idx != 0 { Some(TE_VALUES[te_idx].0) } else { None });
    let obs = match run_exchange(&spec, None, &stream, &mut Sched::canonical()).map_err(|e| format!("{}: {}", what, e))? {
        Outcome::Done(o, _) => o,
        Outcome::Premature(_) => return Err("harness: premature".into()),
        Outcome::NotCompared(why) => {
            st.class(why);
            return Ok(());
        }
    };
    check_against_truth(&spec, &obs, true, stream.len()).map_err(|e| format!("{}: expected framing {:?}: {}", what, framing, e))?;
    if let (Some(m), true) = (&obs.body_mode, obs.body_state_entered) {
        let want = match framing {
            Framing::Chunked => "Chunked".to_string(),
            Framing::Close => "CloseDelimited".to_string(),
            Framing::Length(n) => format!("LengthDelimited({})", n),
            Framing::None => "NoBody".to_string(),
        };
        if *m != want {
            return Err(format!("{}: body_mode() = {}, expected {}", what, m, want));
        }
    }
    st.class(["path_plain", "path_expect_100", "path_expect_refused", "path_late_100", "path_despite"][route]);
    if req_v10 != !resp_v11 {
        st.class("request_and_response_versions_differ");
    }
    if route != 0 || req_v10 {
        st.nontrivial(st.case_digest);
    }
    Ok(())
}

pub static DEF: PropDef = PropDef {
    id: "C06",
    rule: "enumeration 'table': 9 methods x every status 100..999 x response version {1.0, 1.1} x Content-Length in {absent, 0, 7, 007, \
u64::MAX, u64::MAX+1, abc, -1, 1.5, empty, '7 7', 0x10, '7, 7', '7, abc', 'abc, 7', '7,', '7, 8'} x Transfer-Encoding in {absent, chunked, Chunked, CHUNKED, 'gzip, chunked', \
'gzip,chunked', gzip, identity, chunkedx, xchunked, 'deflate, gzip', and two coding lists spread over two field lines: gzip + chunked, 'gzip, deflate' + Chunked} = 3580200 cells, each through Flow (try_response, proceed, \
successor variant, body_mode) and Call (try_response, into_body, mode identified by a probe read). random 'decorated': the same \
cells with field order, name case, OWS, reason phrases and surrounding fields varied. random 'paths': decided cells reached \
through the exchange driver with request version 1.0 / 1.1 and five routes {plain, Expect + 100 seen, Expect refused by this very \
response, 100 arriving late, body sent despite the method}, body bytes delivered and compared. Oracle: the RFC 9112 6.3 table as worded in \
the property; Err for non-numeric Content-Length; successor = body state iff a non-empty body is expected, else Redirect iff 3xx != \
304, else Cleanup. Don't-care (counted): status 100, Content-Length above u64::MAX, 3xx without Content-Length but with a \
non-framing Transfer-Encoding (none or close). non-trivial = cell with two framing signals, or a framing signal under a no-body \
clause (distinct by enumeration index); 'paths' cases on a non-plain route or with an HTTP/1.0 request (distinct by digest).",
    assumptions: &[
        "Transfer-Encoding lists with chunked not in last position are not generated (the statement says 'lists ending in chunked')",
        "'+n' and obs-text framing values are not generated (unasserted leniencies, DESIGN 5.3)",
    ],
    exec: exec_table,
    enums: &[EnumDef {
        name: "table",
        count: |_t: Tier| crate::infra::runner::product(&BASES),
        tape: |_, idx| radix(idx, &BASES),
        exhaustive: true,
        exec: None,
    }],
    randoms: &[
        RandomDef {
            name: "decorated",
            cases: |t: Tier| t.pick(400_000, 30_000_000),
            tape_len: 200,
            exec: Some(exec_decorated),
        },
        RandomDef {
            name: "paths",
            cases: |t: Tier| t.pick(300_000, 24_000_000),
            tape_len: 40,
            exec: Some(exec_paths),
        },
    ],
    extra: None,
};
