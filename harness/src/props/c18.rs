//! C18 — the advertised maximum input always fits the output buffer.

use serde_json::json;

use crate::drive::sender::{pattern, with_out, Api, Kind, Sender};
use crate::infra::runner::{EnumDef, PropDef, RandomDef, Tier};
use crate::infra::stats::Stats;
use crate::infra::tape::Tape;
use crate::model::chunk::StrictDechunk;

const ENUM_MAX: u64 = 3 * 10_248 + 64;

fn near_boundary(n: usize, chunk: usize) -> bool {
    // within 16 of 16^k + overhead, or of a multiple of (chunk + overhead)
    for k in 1..6u32 {
        let p = 16usize.pow(k);
        for ov in [5usize, 6, 7, 8] {
            if n + 16 >= p + ov && n <= p + ov + 16 {
                return true;
            }
        }
    }
    if chunk > 0 {
        let unit = chunk + 8;
        let r = n % unit;
        if r <= 16 || unit - r <= 16 {
            return n >= unit - 16;
        }
    }
    false
}

fn check_one(kind: Kind, n: usize, st: &mut Stats) -> Result<(), String> {
    let mut s = Sender::new(Api::Flow, kind)?;
    let chunked = s.is_chunked().unwrap();
    if chunked != kind.is_chunked() {
        return Err(format!("is_chunked() = {} for {:?}", chunked, kind));
    }
    if chunked && n % 4 == 1 {
        // a finishing attempt that finds no room for the terminator leaves no trace: what is advertised afterwards must still fit
        let small = (n / 4) % 5;
        let r = with_out(small, |out| s.write(&[], out)).map_err(|e| format!("finishing write into {} bytes failed: {:?}", small, e))?;
        if r != (0, 0) || s.finished() {
            return Err(format!("finishing write into {} bytes reported {:?}, finished = {}", small, r, s.finished()));
        }
        st.class("after_failed_finish_attempt");
    }
    check_on(&mut s, kind, chunked, n, st)
}

/// The questions and the promised write on a flow in the body state, whatever was written on it before.
fn check_on(s: &mut Sender, kind: Kind, chunked: bool, n: usize, st: &mut Stats) -> Result<(), String> {
    let m = s.max_input(n).unwrap();
    if m > n {
        return Err(format!("calculate_max_input({}) = {} exceeds n", n, m));
    }
    if n > 0 {
        let prev = s.max_input(n - 1).unwrap();
        if prev > m {
            return Err(format!(
                "calculate_max_input decreases: f({}) = {} > f({}) = {}",
                n - 1,
                prev,
                n,
                m
            ));
        }
    }
    if !chunked && m != n {
        return Err(format!("length-delimited: calculate_max_input({}) = {}", n, m));
    }
    st.evals(1);
    if m == 0 {
        // an empty write is the end-of-body signal, not a transfer: nothing to perform
        st.class("m_is_zero");
        return Ok(());
    }
    let input = &pattern()[..m];
    let (consumed, produced, decoded_ok) = with_out(n, |out| -> Result<(usize, usize, Result<(), String>), String> {
        let (c, p) = s
            .write(input, out)
            .map_err(|e| format!("write(max_input = {}, out = {}) failed: {:?}", m, n, e))?;
        if p > n {
            return Err(format!("produced {} > buffer {}", p, n));
        }
        let dec = if chunked {
            let mut d = StrictDechunk::new();
            match d.feed(&out[..p]) {
                Err(e) => Err(format!("output is not a valid chunk sequence: {}", e)),
                Ok(()) => {
                    if !d.at_boundary() {
                        Err("output ends inside a chunk".to_string())
                    } else if d.terminated {
                        Err("terminator emitted by a non-empty write".to_string())
                    } else if d.data != &input[..c.min(m)] {
                        Err("decoded chunk data differs from the consumed input".to_string())
                    } else {
                        Ok(())
                    }
                }
            }
        } else if out[..p] != input[..p.min(m)] {
            Err("output differs from the input".to_string())
        } else {
            Ok(())
        };
        Ok((c, p, dec))
    })?;
    if consumed != m {
        return Err(format!(
            "n = {}: advertised max input {} but a single write consumed {} (produced {})",
            n, m, consumed, produced
        ));
    }
    decoded_ok?;
    if !chunked && produced != m {
        return Err(format!("length-delimited write produced {} for {} consumed", produced, m));
    }
    st.class(if chunked { "chunked_write" } else { "sized_write" });
    if near_boundary(n, 10_240) {
        st.class("near_boundary");
        let fresh = st.nontrivial(((n as u64) << 1) | chunked as u64);
        if fresh && st.wants_sample() && n > 200 {
            st.sample(json!({"n": n, "chunked": chunked, "max_input": m, "consumed": consumed, "produced": produced}));
        }
    }
    st.describe(|| json!({"n": n, "kind": format!("{:?}", kind), "max_input": m}));
    Ok(())
}

fn kind_of(k: usize) -> Kind {
    match k {
        0 => Kind::DefaultChunked,
        1 => Kind::Sized(u64::MAX),
        2 => Kind::ExplicitTe,
        3 => Kind::DespiteGet,
        4 => Kind::DefaultChunkedHttp10,
        5 => Kind::ExplicitTeOtherCase(false),
        6 => Kind::ExplicitTeOtherCase(true),
        7 => Kind::TeAndCl(3),
        8 => Kind::TeTwoLinesAndCl(3),
        9 => Kind::ViaAwait100 { saw_100: true },
        10 => Kind::ViaAwait100 { saw_100: false },
        11 => Kind::SizedViaAwait100(u64::MAX, true),
        12 => Kind::DespiteSized(u64::MAX, true),
        13 => Kind::DespiteChunkedHeaderFirst,
        14 => Kind::DefaultChunkedExtraHeadWrites,
        15 => Kind::SizedExtraHeadWrites(u64::MAX),
        _ => Kind::TeOtherCaseAndCl(3, true),
    }
}

/// "The advertised size is n itself for a length-delimited body" - also when less than n remains of the declared length
/// (the write is then not performed: offering more than the remainder is refused, which is C04's clause).
fn check_sized_small(total: u64, sent: usize, n: usize, st: &mut Stats) -> Result<(), String> {
    let mut s = Sender::new(Api::Flow, Kind::Sized(total))?;
    if sent > 0 {
        let input = &pattern()[..sent];
        let (c, _) = with_out(sent, |out| s.write(input, out)).map_err(|e| format!("setup write: {:?}", e))?;
        if c != sent {
            return Err(format!("setup write consumed {} of {}", c, sent));
        }
    }
    let m = s.max_input(n).unwrap();
    st.evals(1);
    if m != n {
        return Err(format!("length-delimited body (content-length {}, {} sent): calculate_max_input({}) = {}", total, sent, n, m));
    }
    st.class("sized_small_remaining");
    Ok(())
}

/// A length-delimited body after a direct-write report that was accepted and one that was refused (it overshoots): the refusal
/// leaves no trace, so the advertised n still fits and is consumed by one write.
fn check_sized_after_refused_report(n: usize, st: &mut Stats) -> Result<(), String> {
    let total: u64 = 1 << 40;
    let mut s = Sender::new(Api::Flow, Kind::Sized(total))?;
    let reported = n % 1000;
    if let Some(r) = s.direct(reported) {
        r.map_err(|e| format!("consume_direct_write({}) of {} refused: {:?}", reported, total, e))?;
    }
    if let Some(r) = s.direct(usize::MAX) {
        if r.is_ok() {
            return Err(format!("an overshooting direct-write report was accepted ({} declared)", total));
        }
    }
    let m = s.max_input(n).unwrap();
    st.evals(1);
    if m != n {
        return Err(format!("length-delimited body after a refused direct-write report: calculate_max_input({}) = {}", n, m));
    }
    if n > 0 {
        let input = &pattern()[..n];
        let (c, p) = with_out(n, |out| s.write(input, out)).map_err(|e| format!("after a refused direct-write report the advertised write({}, out = {}) failed: {:?}", n, n, e))?;
        if c != n || p != n {
            return Err(format!("after a refused direct-write report: write of the advertised {} bytes moved ({}, {})", n, c, p));
        }
    }
    st.class("sized_after_refused_report");
    Ok(())
}

/// Stage 'query_pairs': two questions in a row on one flow - buffer lengths from a menu that reaches beyond 2^32 - then the write
/// for the second one when it is small enough to perform. Each answer must respect m <= n, agree with the answer a fresh flow
/// gives (the question has no memory) and stay monotone over the menu.
fn exec_query_pairs(t: &mut Tape, st: &mut Stats) -> Result<(), String> {
    const MENU: [usize; 16] = [
        0, 5, 9, 4_096, 16_384, 65_535, 65_536, 65_544, 1 << 20, (1 << 31) + 7, u32::MAX as usize, 1 << 32, (1 << 32) + 9, (1 << 32) + 4_096,
        (1 << 32) + 16_384, (1 << 40) + 12_345,
    ];
    let a = MENU[t.below(16)];
    let b = MENU[t.below(16)];
    let kind = kind_of([0usize, 1, 9][t.below(3)]);
    st.evals(1);
    let mut s = Sender::new(Api::Flow, kind)?;
    let chunked = s.is_chunked().unwrap();
    let ma = s.max_input(a).unwrap();
    let mb = s.max_input(b).unwrap();
    let fresh_a = Sender::new(Api::Flow, kind)?.max_input(a).unwrap();
    let fresh_b = Sender::new(Api::Flow, kind)?.max_input(b).unwrap();
    st.describe(|| json!({"stage": "query_pairs", "kind": format!("{:?}", kind), "first": a, "second": b, "answers": [ma, mb]}));
    if ma > a || mb > b {
        return Err(format!("{:?}: calculate_max_input({}) = {} then calculate_max_input({}) = {}: an answer exceeds its n", kind, a, ma, b, mb));
    }
    if ma != fresh_a || mb != fresh_b {
        return Err(format!(
            "{:?}: asked {} then {} on one flow: answers {} and {}, but fresh flows answer {} and {}",
            kind, a, b, ma, mb, fresh_a, fresh_b
        ));
    }
    if (a <= b && ma > mb) || (b <= a && mb > ma) {
        return Err(format!("{:?}: calculate_max_input({}) = {} but calculate_max_input({}) = {}: not monotone", kind, a, ma, b, mb));
    }
    if !chunked && (ma != a || mb != b) {
        return Err(format!("length-delimited: calculate_max_input({}) = {}, calculate_max_input({}) = {}", a, ma, b, mb));
    }
    st.class("query_pair");
    if a >= 1 << 31 || b >= 1 << 31 {
        st.count_nontrivial(1);
    }
    // the write the second answer promises, on the same flow, when the buffer can be materialised
    if b <= 1 << 20 && mb >= 1 {
        let input = &pattern()[..mb];
        let (c, _p) = with_out(b, |out| s.write(input, out)).map_err(|e| format!("write({}, out = {}) after asking about {}: {:?}", mb, b, a, e))?;
        if c != mb {
            return Err(format!("{:?}: after asking about {} and {}, a write of the advertised {} bytes into {} bytes consumed {}", kind, a, b, mb, b, c));
        }
    }
    Ok(())
}

/// Stage 'after_history': one to four earlier writes on the same flow - mostly into a buffer of the very length that is asked about
/// next, each shorter than what was advertised for it (or exactly that) - and then the question and the promised write. Nothing a
/// previous call left behind (a remembered fit, a remembered overhead) may make the advertised amount not fit.
fn exec_history(t: &mut Tape, st: &mut Stats) -> Result<(), String> {
    let kind = kind_of([0usize, 2, 9, 4, 1, 13][t.below(6)]);
    let n = match t.weighted(&[4, 2, 2, 1]) {
        0 => t.range(6, 80),
        1 => t.range(80, 5_000),
        2 => [16 + 6, 256 + 7, 4_096 + 8, 10_248, 2 * 10_248][t.below(5)] + t.below(24) - 12,
        _ => t.range(5_000, 40_000),
    };
    let mut s = Sender::new(Api::Flow, kind)?;
    let chunked = s.is_chunked().unwrap();
    let steps = t.range(1, 4);
    let mut shorts = 0;
    for i in 0..steps {
        let out_n = if t.below(4) != 0 { n } else { t.range(0, 2 * n + 16) };
        let cap = s.max_input(out_n).unwrap();
        if cap == 0 {
            continue;
        }
        let len = match t.below(3) {
            0 => cap,
            1 => 1 + t.below(cap.min(20)),
            _ => 1 + t.below(cap),
        };
        if len < cap {
            shorts += 1;
        }
        // only a write of the advertised amount is judged here (that is the statement); what a shorter one consumes is C19's subject
        match with_out(out_n, |out| s.write(&pattern()[..len], out)) {
            Ok((c, _p)) => {
                if len == cap && c != len {
                    return Err(format!("history write #{}: the advertised {} bytes into {} bytes consumed {}", i, cap, out_n, c));
                }
            }
            Err(e) => {
                if len == cap {
                    return Err(format!("history write #{} (the advertised {} bytes into {}) failed: {:?}", i, len, out_n, e));
                }
                st.class("history_write_refused");
                return Ok(());
            }
        }
    }
    if shorts > 0 && chunked {
        st.class("after_short_write");
        st.count_nontrivial(1);
    }
    st.class("after_history");
    check_on(&mut s, kind, chunked, n, st)
}

fn exec_enum(t: &mut Tape, st: &mut Stats) -> Result<(), String> {
    let k = t.below(4);
    let n = t.below(ENUM_MAX as usize + 1);
    if k == 3 {
        // caller-supplied framing in unusual but legal shapes: coding name in another case, Content-Length next to chunked
        // (chunked wins and the declared length is no limit), codings on two lines
        return check_one(kind_of(5 + n % 12), n, st);
    }
    if k == 2 {
        // every n also against a small declared length, fresh and after some of it was sent; and over HTTP/1.0
        check_sized_small(1000, 0, n, st)?;
        check_sized_small(1000, 300 + n % 700, n, st)?;
        if n <= 4_000 {
            check_sized_after_refused_report(n, st)?;
        }
        return check_one(Kind::DefaultChunkedHttp10, n, st);
    }
    check_one(kind_of(k), n, st)
}

fn exec_random(t: &mut Tape, st: &mut Stats) -> Result<(), String> {
    let k = t.below(17);
    // 0 => just above the enumerated range; otherwise up to 2^22 with a bias to boundaries
    let n = match t.weighted(&[2, 3, 3]) {
        0 => ENUM_MAX as usize + 1 + t.below(4096),
        1 => {
            let unit = 10_248;
            let k = t.range(3, 400);
            (k * unit + t.below(40)).saturating_sub(20)
        }
        _ => t.range(ENUM_MAX as usize + 1, 1 << 22),
    };
    check_one(kind_of(k), n, st)
}

pub static DEF: PropDef = PropDef {
    id: "C18",
    rule: "enumeration: every output length n in 0..=30808 x {chunked, length-delimited with a huge declared length, chunked over \
HTTP/1.0, caller-supplied framing in unusual legal shapes rotating with n (Transfer-Encoding: Chunked / CHUNKED, chunked next to a \
Content-Length of 3, codings on two lines next to a Content-Length, the body state reached through Await100 with and without the interim 100, framing added with Flow::header() before send-body-despite-method, SendRequest::write called again after the head was complete), every fourth case after a finishing attempt that found no room (buffer 0..4: nothing emitted, body not finished); plus calculate_max_input(n) == n on a 1000-byte declared length, fresh and after 300..999 bytes were sent} on a Flow in the \
body state: m = calculate_max_input(n) must satisfy m <= n, m(n-1) <= m(n), m == n when not chunked, and \
one write of m pattern bytes into an n-byte buffer must consume exactly m and decode (strict chunk decoder / \
identity) to that input. enumeration 'query_pairs' (768): two questions in a row on one flow over a menu of 16 lengths up to 2^40 (asking needs no buffer), answers must not exceed n, must equal a fresh flow's and be monotone; the promised write is performed when the second length is <= 1 MiB. random: n up to 2^22 biased to multiples of the chunk unit, sixteen body kinds. random 'after_history': the question and the promised write after one to four earlier writes on the same flow (three in four into a buffer of the same length, each the advertised amount or shorter), n in 6..40 000 biased to small buffers and hex-digit boundaries. \
non-trivial = m > 0 and n within 16 of a hex-digit boundary (16^k + overhead) or of a multiple of \
chunk+overhead; distinct by (n, chunked).",
    assumptions: &[
        "the strict chunk decoder in model/chunk.rs is the definition of a valid emitted chunk sequence",
        "m == 0 is vacuous: an empty write is the end signal and is not issued",
    ],
    exec: exec_enum,
    enums: &[
        EnumDef {
            name: "query_pairs",
            count: |_| 16 * 16 * 3,
            tape: |_, idx| vec![(idx % 16) as u32, ((idx / 16) % 16) as u32, (idx / 256) as u32],
            exhaustive: true,
            exec: Some(exec_query_pairs),
        },
        EnumDef {
        name: "all_n",
        count: |_| 4 * (ENUM_MAX + 1),
        tape: |_, idx| vec![(idx % 4) as u32, (idx / 4) as u32],
        exhaustive: true,
        exec: None,
    },
    ],
    randoms: &[RandomDef {
        name: "large_n",
        cases: |t: Tier| t.pick(100_000, 1_000_000),
        tape_len: 8,
        exec: Some(exec_random),
    }, RandomDef {
        name: "after_history",
        cases: |t: Tier| t.pick(150_000, 2_000_000),
        tape_len: 24,
        exec: Some(exec_history),
    }],
    extra: None,
};
