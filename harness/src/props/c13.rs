//! C13 — redirects never leak credentials or stale framing to the next request.

use serde_json::{json, Value};
use ureq_proto::client::flow::{Flow, RedirectAuthHeaders};
use ureq_proto::http::{Method, Request};

use crate::drive::recv::needs_body;
use crate::drive::redirect::{after_head, receive, send_body, write_head_ample, AfterHead, Terminal};
use crate::infra::runner::{EnumDef, PropDef, RandomDef, Tier};
use crate::infra::stats::Stats;
use crate::infra::tape::Tape;
use crate::model::head::parse_request_head;

const HOSTS: [&str; 3] = ["a.test", "b.test", "c.test"];
const PORTS: [Option<u16>; 4] = [None, Some(80), Some(443), Some(8080)];
const SCHEMES: [&str; 2] = ["http", "https"];
const STATUSES: [u16; 8] = [301, 302, 303, 307, 308, 300, 305, 399];

#[derive(Clone, Copy, Debug, PartialEq, Eq)]
enum Form {
    Absolute,
    SchemeRelative,
    PathAbsolute,
    PathRelative,
}
const FORMS: [Form; 4] = [Form::Absolute, Form::SchemeRelative, Form::PathAbsolute, Form::PathRelative];

#[derive(Clone, Debug, PartialEq, Eq)]
struct Origin {
    scheme: &'static str,
    host: &'static str,
    port: Option<u16>,
}

#[derive(Clone, Debug)]
struct Hop {
    /// the caller attaches its own cookie / credentials for the target to the followed flow before sending it
    adds_own: bool,
    status: u16,
    form: Form,
    /// where an absolute form points (scheme-relative uses host+port, the others ignore it)
    to: Origin,
    same_host_policy: bool,
    /// the caller turns the followed flow into a body-sending one (send_body_despite_method) before writing it
    despite_next: bool,
}

#[derive(Clone, Debug)]
struct Case {
    method: Method,
    start: Origin,
    hops: Vec<Hop>,
    /// the original request also carries Expect: 100-continue
    expect: bool,
    /// a body method's original request carries Transfer-Encoding: chunked next to its Content-Length (accepted: chunked frames)
    te_and_cl: bool,
}

fn origin_str(o: &Origin) -> String {
    match o.port {
        Some(p) => format!("{}://{}:{}", o.scheme, o.host, p),
        None => format!("{}://{}", o.scheme, o.host),
    }
}

fn case_json(c: &Case) -> Value {
    json!({
        "method": c.method.as_str(),
        "start": format!("{}/s/t", origin_str(&c.start)),
        "original_has_expect": c.expect,
        "original_has_transfer_encoding_next_to_content_length": c.te_and_cl && needs_body(&c.method),
        "hops": c.hops.iter().map(|h| json!({"caller_adds_own_cookie_and_credentials": h.adds_own, "status": h.status, "form": format!("{:?}", h.form), "to": origin_str(&h.to), "same_host_policy": h.same_host_policy, "caller_sends_body_despite_method_on_followed_flow": h.despite_next})).collect::<Vec<_>>(),
    })
}

/// Structural target model: which origin a hop lands on, given the form of its Location.
fn land(cur: &Origin, h: &Hop) -> Origin {
    match h.form {
        Form::Absolute => h.to.clone(),
        Form::SchemeRelative => Origin { scheme: cur.scheme, host: h.to.host, port: h.to.port },
        Form::PathAbsolute | Form::PathRelative => cur.clone(),
    }
}

fn location(h: &Hop, i: usize) -> String {
    let auth = match h.to.port {
        Some(p) => format!("{}:{}", h.to.host, p),
        None => h.to.host.to_string(),
    };
    match h.form {
        Form::Absolute => format!("{}://{}/abs/{}", h.to.scheme, auth, i),
        Form::SchemeRelative => format!("//{}/sr/{}?k=v", auth, i),
        Form::PathAbsolute => format!("/pa/{}", i),
        Form::PathRelative => format!("../rel/{}", i),
    }
}

fn method_after(m: &Method, status: u16) -> Method {
    if status == 307 || status == 308 {
        m.clone()
    } else if *m == Method::HEAD {
        Method::HEAD
    } else {
        Method::GET
    }
}

struct Pending {
    adds_own: bool,
    hop: usize,
    target: Origin,
    allowed: bool,
    policy_same_host: bool,
    method: Method,
}

fn check_new_head(c: &Case, p: &Pending, wire: &[u8], st: &mut Stats) -> Result<(), String> {
    let i = p.hop;
    let hd = parse_request_head(wire).map_err(|e| format!("hop {}: new head invalid: {}", i, e))?;
    if hd.method != p.method.as_str() {
        return Err(format!("hop {}: new head has method {}, expected {}", i, hd.method, p.method));
    }
    // cookies the caller attached to this very flow are fine; anything of the previous request is a leak
    let stale: Vec<String> = hd.values("cookie").iter().filter(|v| !(p.adds_own && **v == b"fresh=1")).map(|v| String::from_utf8_lossy(v).to_string()).collect();
    if !stale.is_empty() {
        return Err(format!("hop {} -> {}: the previous request's Cookie header is present in the redirected request: {:?}", i, origin_str(&p.target), stale));
    }
    if !hd.values("content-length").is_empty() {
        return Err(format!("hop {} -> {}: the previous request's Content-Length header is present in the redirected request", i, origin_str(&p.target)));
    }
    let present = hd.values("authorization").iter().any(|v| *v == b"Bearer SECRET");
    if present && !p.allowed {
        return Err(format!(
            "hop {}: Authorization sent to {} (original {}; policy {}; allowed only for the same host with the same scheme or https)",
            i,
            origin_str(&p.target),
            origin_str(&c.start),
            if p.policy_same_host { "SameHost" } else { "Never" }
        ));
    }
    if present {
        st.class("authorization_kept");
    } else if p.allowed {
        // the statement is an "only if": dropping it where it would be allowed is not a violation; measured
        st.class("authorization_dropped_though_allowed");
    }
    Ok(())
}

fn run(c: &Case, st: &mut Stats) -> Result<(), String> {
    let start_uri = format!("{}/s/t", origin_str(&c.start));
    let mut b = Request::builder()
        .method(c.method.clone())
        .uri(&start_uri)
        .header("Authorization", "Bearer SECRET")
        .header("Cookie", "session=SECRET")
        .header("cookie", "second=SECRET")
        .header("x-keep", "1");
    if needs_body(&c.method) {
        b = b.header("Content-Length", "4");
        if c.te_and_cl {
            b = b.header("Transfer-Encoding", "chunked");
            st.class("original_with_transfer_encoding_and_content_length");
        }
    }
    // an inherited Transfer-Encoding makes the followed (body-less) request unwritable unless the caller sends a body with it
    let te_inherited = c.te_and_cl && needs_body(&c.method);
    let mut prev_despite = false;
    if c.expect {
        b = b.header("Expect", "100-continue");
    }
    let mut f = Flow::new(b.body(()).map_err(|e| e.to_string())?).map_err(|e| format!("Flow::new: {:?}", e))?;
    let mut cur = c.start.clone();
    let mut method = c.method.clone();
    let mut left_and_returned = false;
    let mut away = false;
    let mut downgrade_same_host = false;
    let mut pending: Option<Pending> = None;
    for (i, h) in c.hops.iter().enumerate() {
        st.evals(1);
        // the request of this hop: written by `f`; if `f` came from a redirect its head is what C13 is about
        let mut sr = f.proceed();
        let wire = write_head_ample(&mut sr).map_err(|e| format!("hop {}: {}", i, e))?;
        if let Some(p) = pending.take() {
            check_new_head(c, &p, &wire, st)?;
        }
        let rr = match after_head(sr).map_err(|e| format!("hop {}: {}", i, e))? {
            AfterHead::RecvResponse(r) => r,
            AfterHead::SendBody(mut bdy) => {
                if i > 0 && !prev_despite {
                    return Err(format!("hop {}: a redirected request wants to send a body", i));
                }
                send_body(&mut bdy, if i == 0 { 4 } else { 0 }).map_err(|e| format!("hop {}: {}", i, e))?;
                bdy.proceed().ok_or("SendBody::proceed returned None")?
            }
        };
        let head = format!("HTTP/1.1 {} R\r\nLocation: {}\r\nContent-Length: 0\r\n\r\n", h.status, location(h, i));
        let mut red = match receive(rr, head.as_bytes(), b"").map_err(|e| format!("hop {}: {}", i, e))? {
            Terminal::Redirect(r) => r,
            Terminal::Cleanup(_) => return Err(format!("hop {}: status {} did not reach the redirect state", i, h.status)),
        };
        let policy = if h.same_host_policy { RedirectAuthHeaders::SameHost } else { RedirectAuthHeaders::Never };
        let mut nf = match red.as_new_flow(policy).map_err(|e| format!("hop {}: as_new_flow: {:?}", i, e))? {
            Some(nf) => nf,
            None => {
                // 307/308 on a body method or DELETE: not followed, nothing can leak
                st.class("not_followed");
                return Ok(());
            }
        };
        if h.adds_own {
            nf.header("Cookie", "fresh=1").map_err(|e| format!("header(): {:?}", e))?;
            nf.header("authorization", "Fresh").map_err(|e| format!("header(): {:?}", e))?;
            st.class("caller_adds_own_cookie");
        }
        // a request sent despite the method and repeated by a 307/308: whether the followed flow remembers the caller's wish is not
        // stated; the caller states it again, so a body is due either way
        let carried = prev_despite && matches!(h.status, 307 | 308);
        prev_despite = h.despite_next || te_inherited || carried;
        if prev_despite {
            nf.send_body_despite_method();
            st.class("followed_flow_sends_body_despite_method");
        }
        let target = land(&cur, h);
        method = method_after(&method, h.status);
        if target.host != c.start.host {
            away = true;
        } else if away {
            left_and_returned = true;
        }
        if target.host == c.start.host && c.start.scheme == "https" && target.scheme == "http" {
            downgrade_same_host = true;
        }
        let allowed = h.same_host_policy && target.host == c.start.host && (target.scheme == c.start.scheme || target.scheme == "https");
        pending = Some(Pending { adds_own: h.adds_own, hop: i, target: target.clone(), allowed, policy_same_host: h.same_host_policy, method: method.clone() });
        cur = target;
        f = nf;
    }
    // the flow produced by the last hop
    if let Some(p) = pending.take() {
        let mut sr = f.proceed();
        let wire = write_head_ample(&mut sr).map_err(|e| format!("after the last hop: {}", e))?;
        check_new_head(c, &p, &wire, st)?;
    }
    finish(c, left_and_returned, downgrade_same_host, 0, st);
    Ok(())
}

fn finish(c: &Case, left_and_returned: bool, downgrade_same_host: bool, _auth_seen: u32, st: &mut Stats) {
    if left_and_returned {
        st.class("left_and_returned");
    }
    if downgrade_same_host {
        st.class("https_to_http_same_host");
    }
    if left_and_returned || downgrade_same_host || c.hops.len() >= 2 {
        st.nontrivial(st.case_digest);
        if st.wants_sample() && left_and_returned {
            st.sample(case_json(c));
        }
    }
}

fn origin_from(idx: usize) -> Origin {
    Origin { scheme: SCHEMES[idx % 2], host: HOSTS[(idx / 2) % 3], port: PORTS[(idx / 6) % 4] }
}

fn hop_from(idx: usize, salt: usize) -> Hop {
    // idx in 0..192: target origin (24) x form (4) x policy (2); status rotates with the cell
    let to = origin_from(idx % 24);
    let form = FORMS[(idx / 24) % 4];
    let same_host_policy = (idx / 96) % 2 == 1;
    Hop { adds_own: (idx + salt) % 3 == 0, status: STATUSES[(idx + salt) % STATUSES.len()], form, to, same_host_policy, despite_next: (idx + salt) % 5 == 1 }
}

/// Exhaustive: start origin (24) x hop 1 (192) x hop 2 (none or 192).
fn exec_enum(t: &mut Tape, st: &mut Stats) -> Result<(), String> {
    let s = t.below(24);
    let h1 = t.below(192);
    let h2 = t.below(193);
    st.case_digest = t.digest();
    let method = [Method::GET, Method::POST, Method::HEAD, Method::PUT, Method::DELETE, Method::OPTIONS][(s + h1 + h2) % 6].clone();
    let mut hops = vec![hop_from(h1, s)];
    if h2 > 0 {
        hops.push(hop_from(h2 - 1, s + h1));
    }
    let c = Case { method, start: origin_from(s), hops, expect: (s + h1) % 4 == 1, te_and_cl: (s + h1 + h2) % 7 == 3 };
    st.describe(|| case_json(&c));
    run(&c, st)
}

fn exec_random(t: &mut Tape, st: &mut Stats) -> Result<(), String> {
    let start = origin_from(t.below(24));
    let method = t.pick(&[Method::GET, Method::POST, Method::HEAD, Method::PUT, Method::PATCH, Method::DELETE, Method::OPTIONS, Method::TRACE]).clone();
    let n = t.range(3, 4);
    let mut hops = vec![];
    for _ in 0..n {
        let mut to = origin_from(t.below(24));
        // bias towards returning to the original host
        if t.chance(40) {
            to.host = start.host;
        }
        hops.push(Hop { adds_own: t.chance(30), status: *t.pick(&STATUSES), form: *t.pick(&FORMS), to, same_host_policy: t.chance(70), despite_next: false });
    }
    let expect = t.chance(25);
    for h in hops.iter_mut() {
        h.despite_next = t.chance(20);
    }
    let te_and_cl = t.chance(25);
    st.case_digest = t.digest();
    let c = Case { method, start, hops, expect, te_and_cl };
    st.describe(|| case_json(&c));
    run(&c, st)
}

pub static DEF: PropDef = PropDef {
    id: "C13",
    rule: "exhaustive enumeration of all chains of length 1 and 2 over start origin (http/https x {a,b,c}.test x port {none, 80, 443, \
8080}) x per hop (24 target origins x Location form {absolute, scheme-relative, path-absolute, path-relative} x policy {Never, \
SameHost}), statuses {301,302,303,307,308,300,305,399} and methods {GET, POST, HEAD, PUT, DELETE, OPTIONS} rotating with the cell \
index (889 344 chains); random chains of 3..4 hops biased to return to the original host. The original request carries \
Authorization, two Cookie fields, Content-Length (body methods), an ordinary header and (one case in four) Expect: 100-continue; on \
every third hop the caller attaches its own Cookie and Authorization to the followed flow before sending it; on every fifth hop (random chains: one in five) \
it turns the followed flow into a body-sending one (send_body_despite_method, empty chunked body); one original request with a body in seven (random: in four) also carries \
Transfer-Encoding: chunked next to its Content-Length (then every followed flow sends a body, the inherited coding requires it). Oracle on the head written by the flow \
of every hop (strictly parsed): no cookie other than the one the caller just attached, no content-length, and the previous request's authorization present only if policy = \
SameHost and target host = original host and (target scheme = original scheme or https); the target origin comes from the \
generator's structure (form semantics), never from the implementation. The statement is an 'only if': dropping Authorization where it \
would be allowed is measured, not failed. non-trivial = chain that leaves the original host and returns, or downgrades https to http \
on the original host, or has >= 2 hops; distinct by decoded-choice digest.",
    assumptions: &["hosts are lower-case; ports do not take part in the rule (as stated)"],
    exec: exec_random,
    enums: &[EnumDef {
        name: "chains_le_2",
        count: |t: Tier| t.pick(24 * 192 * 193, 24 * 192 * 193),
        tape: |_, idx| crate::infra::runner::radix(idx, &[24, 192, 193]),
        exhaustive: true,
        exec: Some(exec_enum),
    }],
    randoms: &[RandomDef {
        name: "chains_3_4",
        cases: |t: Tier| t.pick(600_000, 36_000_000),
        tape_len: 40,
        exec: None,
    }],
    extra: None,
};
