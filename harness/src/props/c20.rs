//! C20 — standalone head parsers round-trip well-formed heads and honour their limits.

use serde_json::json;
use ureq_proto::http::{HeaderMap, Request, Response, Version};
use ureq_proto::parser::{try_parse_partial_response, try_parse_request, try_parse_response};
use ureq_proto::Error;

use super::c05::{gen_fields, gen_status, prefix_lengths};
use crate::infra::runner::{PropDef, RandomDef, Tier};
use crate::infra::stats::Stats;
use crate::infra::tape::Tape;
use crate::model::head::{compare_fields, fields_subsequence_of, gen_plain_fields, gen_reason, Field, RespHead, ALNUM};

const LIMITS: [usize; 4] = [0, 1, 4, 128];

fn parse_resp(limit: usize, input: &[u8]) -> Result<Option<(usize, Response<()>)>, Error> {
    match limit {
        0 => try_parse_response::<0>(input),
        1 => try_parse_response::<1>(input),
        4 => try_parse_response::<4>(input),
        _ => try_parse_response::<128>(input),
    }
}

fn parse_partial(limit: usize, input: &[u8]) -> Result<Option<Response<()>>, Error> {
    match limit {
        0 => try_parse_partial_response::<0>(input),
        1 => try_parse_partial_response::<1>(input),
        4 => try_parse_partial_response::<4>(input),
        _ => try_parse_partial_response::<128>(input),
    }
}

fn parse_req(limit: usize, input: &[u8]) -> Result<Option<(usize, Request<()>)>, Error> {
    match limit {
        0 => try_parse_request::<0>(input),
        1 => try_parse_request::<1>(input),
        4 => try_parse_request::<4>(input),
        _ => try_parse_request::<128>(input),
    }
}

fn gen_tail(t: &mut Tape) -> Vec<u8> {
    let tl = t.small_len(48);
    (0..tl)
        .map(|_| match t.weighted(&[3, 1, 1]) {
            0 => t.below(256) as u8,
            1 => b'\r',
            _ => b'\n',
        })
        .collect()
}

fn gen_count(t: &mut Tape, limit: usize) -> usize {
    match t.weighted(&[3, 2, 2, 2]) {
        0 => t.range(0, limit + 2),
        1 => limit,
        2 => limit + 1,
        _ => t.range(0, limit.min(12)),
    }
}

fn check_fields(map: &HeaderMap, expected: &[Field], what: &str) -> Result<(), String> {
    compare_fields(map, expected).map_err(|e| format!("{}: {}", what, e))
}

/// The standalone parsers are syntax only: a field name that means something to HTTP (Host, Content-Length, Transfer-Encoding,
/// Connection, ...) repeated two to four times - with equal, different or nonsensical values - is still a well-formed head and
/// must come back complete. Overwrites 2..4 positions of `fields` with one such name.
fn repeat_semantic_name(t: &mut Tape, fields: &mut [Field], st: &mut Stats) {
    const NAMES: [&str; 10] = ["Host", "host", "Content-Length", "Transfer-Encoding", "Connection", "Cookie", "Expect", "Authorization", "Location", "Upgrade"];
    const VALUES: [&str; 8] = ["h.test", "other.test", "5", "abc", "chunked", "close", "", "100-continue"];
    if fields.len() < 2 {
        return;
    }
    let name = *t.pick(&NAMES);
    let k = t.range(2, 4.min(fields.len()));
    for _ in 0..k {
        let i = t.below(fields.len());
        let mut n = name.as_bytes().to_vec();
        if t.chance(30) {
            n.make_ascii_uppercase();
        }
        fields[i] = Field { name: n, value: t.pick(&VALUES).as_bytes().to_vec(), ows_l: b" ".to_vec(), ows_r: vec![] };
    }
    st.class("semantic_name_repeated");
}

fn exec_response(t: &mut Tape, st: &mut Stats) -> Result<(), String> {
    let limit = *t.pick(&LIMITS);
    let status = gen_status(t);
    let count = gen_count(t, limit);
    let obs = t.chance(40);
    let mut head = RespHead {
        v11: !t.chance(25),
        status,
        reason: gen_reason(t),
        fields: gen_fields(t, status, count, obs),
    };
    if t.chance(20) {
        repeat_semantic_name(t, &mut head.fields, st);
    }
    // rarely a head of more than 64 KiB: one field value of 64..100 KiB (the field count stays what it is)
    if count >= 1 && count <= 8 && t.chance(1) {
        let n = *t.pick(&[65_530usize, 65_536, 70_000, 100_000]);
        let i = t.below(count);
        head.fields[i] = Field { name: b"X-Huge".to_vec(), value: vec![b'h'; n], ows_l: b" ".to_vec(), ows_r: vec![] };
        st.class("resp_head_over_64k");
    }
    let tail = gen_tail(t);
    let w = head.wire();
    let wire = &w.bytes;
    let prefixes = prefix_lengths(wire.len(), &w.line_ends, t);
    st.case_digest = t.digest();
    st.describe(|| json!({"parser": "response", "limit": limit, "fields": count, "status": status,
        "head": String::from_utf8_lossy(&wire[..wire.len().min(300)]), "head_len": wire.len(), "tail_len": tail.len()}));
    let within = count <= limit;
    st.class(if count == limit { "resp_count_eq_limit" } else if count == limit + 1 { "resp_count_limit_plus_1" } else if within { "resp_within" } else { "resp_over" });

    let mut full = wire.clone();
    full.extend_from_slice(&tail);
    for input in [&full, wire] {
        st.evals(1);
        match parse_resp(limit, input) {
            Ok(Some((n, r))) => {
                if !within {
                    return Err(format!("response parser <{}> accepted a head with {} fields", limit, count));
                }
                if n != wire.len() {
                    return Err(format!("response parser: length {} reported for a head of {} bytes", n, wire.len()));
                }
                if r.status().as_u16() != status || r.version() != head.version() {
                    return Err(format!("response parser: status {} / {:?} reported for {} / {:?}", r.status(), r.version(), status, head.version()));
                }
                check_fields(r.headers(), &head.fields, "response parser")?;
            }
            Ok(None) => return Err(format!("response parser <{}>: complete head ({} fields) reported incomplete", limit, count)),
            Err(e) => {
                if within {
                    return Err(format!("response parser <{}>: head with {} fields failed: {:?}", limit, count, e));
                }
                if e != Error::HttpParseTooManyHeaders {
                    return Err(format!("response parser <{}>: {} fields: expected the too-many-headers error, got {:?}", limit, count, e));
                }
            }
        }
    }
    if count == limit || count == limit + 1 {
        st.nontrivial(st.case_digest);
    }
    if within {
        for &p in &prefixes {
            let win = &wire[..p];
            st.evals(2);
            let at_line_end = w.line_ends.contains(&p);
            if !at_line_end {
                st.nontrivial_sub(p as u64);
                st.class("resp_cut_inside_line");
            }
            match parse_resp(limit, win) {
                Ok(None) => {}
                Ok(Some((n, _))) => return Err(format!("response parser <{}>: strict prefix {} of {} parsed as complete ({} bytes)", limit, p, wire.len(), n)),
                Err(e) => return Err(format!("response parser <{}>: strict prefix {} of {} is an error: {:?}", limit, p, wire.len(), e)),
            }
            match parse_partial(limit, win) {
                Ok(None) => {}
                Ok(Some(r)) => {
                    st.class("partial_some");
                    if r.status().as_u16() != status || r.version() != head.version() {
                        return Err(format!("partial parser: prefix {}: status {} / {:?} reported for {} / {:?}", p, r.status(), r.version(), status, head.version()));
                    }
                    let complete: Vec<Field> = head
                        .fields
                        .iter()
                        .enumerate()
                        .filter(|(i, _)| w.line_ends[i + 1] <= p)
                        .map(|(_, f)| f.clone())
                        .collect();
                    if r.headers().len() > complete.len() {
                        return Err(format!("partial parser: prefix {}: {} fields reported, only {} complete in the input", p, r.headers().len(), complete.len()));
                    }
                    fields_subsequence_of(r.headers(), &complete, None).map_err(|e| format!("partial parser: prefix {} of {}: {}", p, wire.len(), e))?;
                }
                Err(e) => return Err(format!("partial parser <{}>: prefix {} of {} ({} fields) failed: {:?}", limit, p, wire.len(), count, e)),
            }
        }
        // the partial parser on the complete head (+ tail) must not fail either
        st.evals(1);
        match parse_partial(limit, &full) {
            Ok(Some(r)) => {
                if r.status().as_u16() != status {
                    return Err("partial parser: wrong status on the complete head".into());
                }
                fields_subsequence_of(r.headers(), &head.fields, None).map_err(|e| format!("partial parser on the complete head: {}", e))?;
            }
            Ok(None) => return Err("partial parser: None on a complete head".into()),
            Err(e) => return Err(format!("partial parser failed on the complete head: {:?}", e)),
        }
    }
    if st.wants_sample() && count > 0 && wire.len() < 200 {
        st.sample(json!({"parser": "response", "limit": limit, "fields": count, "head": String::from_utf8_lossy(wire)}));
    }
    Ok(())
}

const METHOD_EXTRA: &[u8] = b"!*+-.^_`|~";
const STD_METHODS: [&str; 9] = ["GET", "HEAD", "POST", "PUT", "DELETE", "CONNECT", "OPTIONS", "TRACE", "PATCH"];

fn exec_request(t: &mut Tape, st: &mut Stats) -> Result<(), String> {
    let limit = *t.pick(&LIMITS);
    let method: Vec<u8> = match t.weighted(&[3, 1, 1]) {
        0 => t.pick(&STD_METHODS).as_bytes().to_vec(),
        1 => {
            let mut m = t.pick(&STD_METHODS).as_bytes().to_vec();
            m.make_ascii_lowercase();
            m
        }
        _ => {
            let n = t.range(1, 12);
            (0..n).map(|_| if t.chance(20) { *t.pick(METHOD_EXTRA) } else { *t.pick(ALNUM) }).collect()
        }
    };
    let target: Vec<u8> = match t.weighted(&[4, 2, 1, 1]) {
        0 => {
            let mut s = b"/".to_vec();
            let n = t.small_len(30);
            s.extend((0..n).map(|_| *t.pick(b"abcXYZ019/-._~%?=&;:@")));
            s
        }
        1 => b"http://h.test:8080/a/b?c=d".to_vec(),
        2 => b"*".to_vec(),
        _ => b"h.test:443".to_vec(),
    };
    // rarely a very long (still legal) target
    let target = if t.chance(1) {
        let mut v = b"/long/".to_vec();
        v.extend(std::iter::repeat(b'a').take(*t.pick(&[65_530usize, 65_536, 70_000])));
        st.class("req_target_over_64k");
        v
    } else {
        target
    };
    let v11 = !t.chance(30);
    let count = gen_count(t, limit);
    let obs = t.chance(30);
    let mut fields = gen_plain_fields(t, count, obs);
    if count > 0 && t.chance(60) {
        let i = t.below(count);
        fields[i] = Field::new("Host", "h.test");
    }
    if t.chance(25) {
        repeat_semantic_name(t, &mut fields, st);
    }
    if count >= 1 && count <= 8 && t.chance(1) {
        let i = t.below(count);
        fields[i] = Field { name: b"X-Huge".to_vec(), value: vec![b'h'; *t.pick(&[65_536usize, 70_000, 100_000])], ows_l: b" ".to_vec(), ows_r: vec![] };
        st.class("req_head_over_64k");
    }
    let tail = gen_tail(t);
    let mut wire: Vec<u8> = Vec::new();
    let mut line_ends = vec![];
    wire.extend_from_slice(&method);
    wire.push(b' ');
    wire.extend_from_slice(&target);
    wire.extend_from_slice(if v11 { b" HTTP/1.1\r\n" } else { b" HTTP/1.0\r\n" });
    line_ends.push(wire.len());
    for f in &fields {
        wire.extend_from_slice(&f.line());
        line_ends.push(wire.len());
    }
    wire.extend_from_slice(b"\r\n");
    let prefixes = prefix_lengths(wire.len(), &line_ends, t);
    st.case_digest = t.digest();
    st.describe(|| json!({"parser": "request", "limit": limit, "fields": count,
        "head": String::from_utf8_lossy(&wire[..wire.len().min(300)]), "head_len": wire.len(), "tail_len": tail.len()}));
    let within = count <= limit;
    st.class(if count == limit { "req_count_eq_limit" } else if count == limit + 1 { "req_count_limit_plus_1" } else if within { "req_within" } else { "req_over" });
    let version = if v11 { Version::HTTP_11 } else { Version::HTTP_10 };

    let mut full = wire.clone();
    full.extend_from_slice(&tail);
    for input in [&full, &wire] {
        st.evals(1);
        match parse_req(limit, input) {
            Ok(Some((n, r))) => {
                if !within {
                    return Err(format!("request parser <{}> accepted a head with {} fields", limit, count));
                }
                if n != wire.len() {
                    return Err(format!("request parser: length {} reported for a head of {} bytes", n, wire.len()));
                }
                if r.method().as_str().as_bytes() != &method[..] {
                    return Err(format!("request parser: method {:?} reported for {:?}", r.method(), String::from_utf8_lossy(&method)));
                }
                if r.version() != version {
                    return Err(format!("request parser: version {:?} reported", r.version()));
                }
                check_fields(r.headers(), &fields, "request parser")?;
            }
            Ok(None) => return Err(format!("request parser <{}>: complete head ({} fields) reported incomplete", limit, count)),
            Err(e) => {
                if within {
                    return Err(format!("request parser <{}>: head with {} fields failed: {:?}", limit, count, e));
                }
                if e != Error::HttpParseTooManyHeaders {
                    return Err(format!("request parser <{}>: {} fields: expected the too-many-headers error, got {:?}", limit, count, e));
                }
            }
        }
    }
    if count == limit || count == limit + 1 {
        st.nontrivial(st.case_digest);
    }
    if within {
        for &p in &prefixes {
            st.evals(1);
            if !line_ends.contains(&p) {
                st.nontrivial_sub(p as u64);
                st.class("req_cut_inside_line");
            }
            match parse_req(limit, &wire[..p]) {
                Ok(None) => {}
                Ok(Some((n, _))) => return Err(format!("request parser <{}>: strict prefix {} of {} parsed as complete ({} bytes)", limit, p, wire.len(), n)),
                Err(e) => return Err(format!("request parser <{}>: strict prefix {} of {} is an error: {:?}", limit, p, wire.len(), e)),
            }
        }
    }
    if st.wants_sample() && count > 0 && wire.len() < 200 {
        st.sample(json!({"parser": "request", "limit": limit, "fields": count, "head": String::from_utf8_lossy(&wire)}));
    }
    Ok(())
}

pub static DEF: PropDef = PropDef {
    id: "C20",
    rule: "random heads for limits N in {0, 1, 4, 128} with field counts aimed at {0..N+2, exactly N, exactly N+1}: response heads \
as in C05 (status 101..999, reasons, OWS, obs-text, repeated names, empty values) and request heads (nine standard methods, \
lower-case variants, extension tokens over alnum + !*+-.^_`|~; origin-, absolute-, asterisk- and authority-form targets; \
HTTP/1.0 and 1.1), each followed by 0..48 arbitrary tail bytes; 1 % of small heads carry a 64-100 KiB field value, 1 % of request heads a 64-70 KiB target; 20-25 % repeat a name that means something to HTTP (Host, Content-Length, Transfer-Encoding, Connection, ...) two to four times with equal, different or nonsensical values - syntax only, so all of them must come back. Oracle: complete head (with and without tail) => method/status, \
version, per-name ordered values and exactly |head| when count <= N, Err(HttpParseTooManyHeaders) when count > N; every strict \
prefix (all lengths for heads <= 600 bytes) of a head within the limit => incomplete, never an error; partial response parser on \
every prefix and on the complete head: never Err, and if it reports a response its status/version match and every reported \
field is a field whose complete line lies inside the input. non-trivial = prefix cut inside a line, or a head with exactly N or N+1 \
fields; distinct by (case digest, prefix length).",
    assumptions: &[
        "extension method tokens avoid # $ % & ' which http::Method cannot represent (documented RequestInvalidMethod)",
        "the request parser does not report the target; it is not compared",
        "HeaderMap groups values by name: order is compared per name",
    ],
    exec: exec_response,
    enums: &[],
    randoms: &[
        RandomDef {
            name: "response_heads",
            cases: |t: Tier| t.pick(40_000, 800_000),
            tape_len: 2_600,
            exec: Some(exec_response),
        },
        RandomDef {
            name: "request_heads",
            cases: |t: Tier| t.pick(40_000, 800_000),
            tape_len: 2_600,
            exec: Some(exec_request),
        },
    ],
    extra: None,
};
