//! C05 — response head parsing is exact and safe on every prefix.

use serde_json::{json, Value};
use ureq_proto::http::{Method, Response};
use ureq_proto::parser::try_parse_response;

/// The statement fixes the limit: heads with up to 128 fields are accepted, more are rejected.
const MAX_RESPONSE_HEADERS: usize = 128;

use crate::drive::recv::{call_recv, flow_recv};
use crate::infra::runner::{PropDef, RandomDef, Tier};
use crate::infra::stats::Stats;
use crate::infra::tape::Tape;
use crate::model::head::{compare_fields, fields_subsequence_of, gen_ows, gen_plain_fields, gen_reason, gen_value, Field, RespHead};

pub struct Case {
    pub method: Method,
    pub req_v10: bool,
    pub head: RespHead,
    pub tail: Vec<u8>,
    /// the head is preceded by an interim 100 that the flow skips (request sent with Expect: 100-continue): None, or
    /// Some((bytes of the 100, length of the prefix of it offered first, whether the head then comes in one piece))
    pub late_100: Option<(Vec<u8>, usize, bool)>,
    /// the request carried Expect: 100-continue and no 100 has been seen (the flow would still skip one)
    pub expecting: bool,
}

pub fn case_json(c: &Case, wire: &[u8]) -> Value {
    json!({
        "method": c.method.as_str(),
        "request_http10": c.req_v10,
        "status": c.head.status,
        "fields": c.head.fields.len(),
        "head": String::from_utf8_lossy(&wire[..wire.len().min(400)]),
        "head_len": wire.len(),
        "tail_len": c.tail.len(),
        "late_100_prologue": c.late_100.as_ref().map(|(h, p, whole)| json!({"interim": String::from_utf8_lossy(h), "prefix_offered_first": p, "head_then_in_one_piece": whole})),
    })
}

pub fn gen_status(t: &mut Tape) -> u16 {
    match t.weighted(&[4, 4, 2, 2]) {
        0 => *t.pick(&[200u16, 204, 206, 404, 500, 101, 103, 199, 999]),
        1 => *t.pick(&[301u16, 302, 303, 307, 308, 300, 304, 305, 399]),
        2 => t.range(101, 999) as u16,
        _ => t.range(300, 399) as u16,
    }
}

/// Fields for a response head: plain ones plus, at random positions, Location / Set-Cookie / framing /
/// Connection fields with *valid* values (invalid framing values belong to C06).
pub fn gen_fields(t: &mut Tape, status: u16, count: usize, obs: bool) -> Vec<Field> {
    let mut fields = gen_plain_fields(t, count, obs);
    let is3xx = (300..400).contains(&status);
    let mut specials: Vec<Field> = vec![];
    if count > 0 {
        if (is3xx && t.chance(85)) || t.chance(10) {
            let v = match t.below(4) {
                0 => "/x".to_string(),
                1 => "http://b.test/y?z=1".to_string(),
                2 => "../up".to_string(),
                _ => String::from_utf8_lossy(&gen_value(t, 30, false, false)).to_string(),
            };
            let name = *t.pick(&["Location", "location", "LOCATION"]);
            specials.push(Field { name: name.as_bytes().to_vec(), value: v.into_bytes(), ows_l: gen_ows(t), ows_r: vec![] });
            if t.chance(15) {
                specials.push(Field::new("Location", "/second"));
            }
        }
        if t.chance(40) {
            specials.push(Field::new("Set-Cookie", "sid=abc; Path=/"));
        }
        match t.weighted(&[3, 3, 2, 1]) {
            0 => {}
            1 => {
                let n = *t.pick(&["0", "5", "1234", "18446744073709551615"]);
                specials.push(Field { name: t.pick(&["Content-Length", "content-length"]).as_bytes().to_vec(), value: n.as_bytes().to_vec(), ows_l: gen_ows(t), ows_r: gen_ows(t) });
            }
            2 => specials.push(Field::new("Transfer-Encoding", *t.pick(&["chunked", "gzip, chunked", "Chunked"]))),
            _ => {
                specials.push(Field::new("Content-Length", "7"));
                specials.push(Field::new("transfer-encoding", "chunked"));
            }
        }
        if t.chance(30) {
            specials.push(Field::new("Connection", *t.pick(&["close", "keep-alive", "upgrade"])));
        } else if t.chance(8) {
            // the same field many times, or one field with many list members
            let k = t.range(3, 9);
            if t.bool() {
                for _ in 0..k {
                    specials.push(Field::new("Connection", "close"));
                }
            } else {
                specials.push(Field::new("Connection", &vec!["close"; k].join(", ")));
            }
        }
        if t.chance(10) {
            specials.push(Field { name: b"X-Empty".to_vec(), value: vec![], ows_l: gen_ows(t), ows_r: vec![] });
        }
    }
    // replace plain fields by the specials at random positions (keeps the requested count)
    for s in specials {
        if fields.is_empty() {
            break;
        }
        let i = t.below(fields.len());
        fields[i] = s;
    }
    fields
}

pub fn gen_case(t: &mut Tape) -> Case {
    let req_v10 = t.chance(20);
    // the head comes back complete whatever the request was (a 2xx answer to CONNECT keeps its framing fields, too)
    let method = if req_v10 { t.pick(&[Method::GET, Method::HEAD, Method::POST]).clone() } else { crate::drive::recv::METHODS[t.below(9)].clone() };
    let status = gen_status(t);
    let count = match t.weighted(&[6, 3, 2, 2, 2]) {
        0 => t.range(0, 8),
        1 => t.range(9, 40),
        2 => t.range(41, 126),
        3 => *t.pick(&[127usize, 128, 128]),
        _ => t.range(129, 140),
    };
    let obs = t.chance(40);
    let mut head = RespHead {
        v11: !t.chance(25),
        status,
        reason: gen_reason(t),
        fields: gen_fields(t, status, count, obs),
    };
    // rarely: a head of more than 64 KiB (few fields, one or two very long values)
    if count <= 8 && t.chance(1) {
        let n = *t.pick(&[65_530usize, 65_536, 70_000, 100_000]);
        head.fields.push(Field { name: b"X-Huge".to_vec(), value: vec![b'h'; n], ows_l: b" ".to_vec(), ows_r: vec![] });
        if t.bool() {
            head.fields.push(Field::new("X-After", "1"));
        }
    }
    let tl = t.small_len(64);
    let tail: Vec<u8> = (0..tl)
        .map(|_| match t.weighted(&[3, 1, 1, 1]) {
            0 => t.below(256) as u8,
            1 => b'\r',
            2 => b'\n',
            _ => *t.pick(b"HTP/1.0 :"),
        })
        .collect();
    let late_100 = if t.chance(15) {
        let h: &[u8] = *t.pick(&[&b"HTTP/1.1 100 Continue\r\n\r\n"[..], b"HTTP/1.0 100 Continue\r\n\r\n", b"HTTP/1.1 100 \r\n\r\n"]);
        let p = t.below(h.len());
        Some((h.to_vec(), p, t.bool()))
    } else {
        None
    };
    let expecting = late_100.is_none() && t.chance(12);
    Case { method, req_v10, head, tail, late_100, expecting }
}

/// The prefix lengths to offer for a head of `len` bytes (strict prefixes only), ascending.
pub fn prefix_lengths(len: usize, line_ends: &[usize], t: &mut Tape) -> Vec<usize> {
    if len <= 600 {
        return (0..len).collect();
    }
    let mut v: Vec<usize> = (0..=200).collect();
    for e in line_ends {
        for d in 0..=4usize {
            let p = (*e + 2).saturating_sub(d);
            if p < len {
                v.push(p);
            }
        }
    }
    let samples = if len > 20_000 { 24 } else { 120 };
    for _ in 0..samples {
        v.push(t.below(len));
    }
    for d in 1..=3 {
        v.push(len - d);
    }
    v.sort_unstable();
    v.dedup();
    v
}

/// Does (window = wire[..p]) / response match the listed known finding K1 exactly?
fn k1_signature(case: &Case, wire: &[u8], line_ends: &[usize], p: usize, consumed: usize, resp: &Response<()>) -> bool {
    let h = &case.head;
    if !(300..400).contains(&h.status) {
        return false;
    }
    if p >= wire.len() {
        return false;
    }
    // fields whose complete line lies inside the window
    let complete: Vec<Field> = h
        .fields
        .iter()
        .enumerate()
        .filter(|(i, _)| line_ends[i + 1] <= p)
        .map(|(_, f)| f.clone())
        .collect();
    if !complete.iter().any(|f| f.lname() == "location" && !f.value.is_empty()) {
        return false;
    }
    if consumed != p {
        return false;
    }
    if resp.status().as_u16() != h.status || resp.version() != h.version() {
        return false;
    }
    // the fallback replaces any connection field by one synthetic "connection: close"
    let conn: Vec<_> = resp.headers().get_all("connection").iter().collect();
    if conn.len() != 1 || conn[0].as_bytes() != b"close" {
        return false;
    }
    fields_subsequence_of(resp.headers(), &complete, Some("connection")).is_ok()
}

fn check_full(case: &Case, wire: &[u8], resp: &Response<()>, consumed: usize, api: &str) -> Result<(), String> {
    if consumed != wire.len() {
        return Err(format!("{}: consumed {} for a head of {} bytes", api, consumed, wire.len()));
    }
    if resp.status().as_u16() != case.head.status {
        return Err(format!("{}: status {} reported for {}", api, resp.status(), case.head.status));
    }
    if resp.version() != case.head.version() {
        return Err(format!("{}: version {:?} reported", api, resp.version()));
    }
    compare_fields(resp.headers(), &case.head.fields).map_err(|e| format!("{}: {}", api, e))
}

pub fn exec(t: &mut Tape, st: &mut Stats) -> Result<(), String> {
    let case = gen_case(t);
    let w = case.head.wire();
    let wire = &w.bytes;
    let prefixes = prefix_lengths(wire.len(), &w.line_ends, t);
    st.case_digest = t.digest();
    st.describe(|| case_json(&case, wire));
    let nfields = case.head.fields.len();
    let over_limit = nfields > MAX_RESPONSE_HEADERS;
    st.class(if over_limit { "fields_over_128" } else if nfields >= 127 { "fields_127_128" } else if nfields > 8 { "fields_9_126" } else { "fields_0_8" });
    if (300..400).contains(&case.head.status) {
        st.class("status_3xx");
    }

    // with a late-100 prologue the request carried Expect: 100-continue and the flow first sees (a prefix of, then all of) a
    // bare 100, which it must skip; the head H then follows as for any other flow
    let mk_flow = || -> Result<_, String> {
        match &case.late_100 {
            None if case.expecting => flow_recv(&case.method, case.req_v10, &[("expect", "100-continue")]),
            None => flow_recv(&case.method, case.req_v10, &[]),
            Some((h, p, _)) => {
                let mut f = flow_recv(&case.method, case.req_v10, &[("expect", "100-continue")])?;
                match f.try_response(&h[..*p]) {
                    Ok((0, None)) => {}
                    other => return Err(format!("late-100 prologue: prefix {} of the interim response gave {:?}", p, other.map(|o| (o.0, o.1.is_some())))),
                }
                match f.try_response(h) {
                    Ok((n, None)) if n == h.len() => {}
                    other => return Err(format!("late-100 prologue: the interim 100 was not skipped: {:?}", other.map(|o| (o.0, o.1.is_some())))),
                }
                Ok(f)
            }
        }
    };
    let mk_call = || call_recv(&case.method, case.req_v10);
    if case.late_100.is_some() {
        st.class("late_100_prologue");
    }
    if case.expecting {
        st.class("flow_still_expecting_100");
    }

    let whole_first = matches!(case.late_100, Some((_, _, true)));
    let prefixes: Vec<usize> = if whole_first { vec![] } else { prefixes };
    if !over_limit {
        let mut flow = mk_flow()?;
        let mut call = mk_call()?;
        for &p in &prefixes {
            let win = &wire[..p];
            st.evals(3);
            // cut classification (generator measurement)
            let at_line_end = w.line_ends.contains(&p);
            let in_status = p < w.line_ends[0];
            let between_crlf = p > 0 && wire[p - 1] == b'\r';
            if !at_line_end {
                st.nontrivial_sub(p as u64);
            }
            if in_status {
                st.class("cut_in_status_line");
            } else if between_crlf {
                st.class("cut_between_cr_lf");
            } else if at_line_end {
                st.class("cut_at_line_end");
            } else {
                st.class("cut_in_field_line");
            }

            // 1. standalone parser: never a response, never an error
            match try_parse_response::<MAX_RESPONSE_HEADERS>(win) {
                Ok(None) => {}
                Ok(Some((n, r))) => return Err(format!("parser: prefix {} of {} returned a response (status {}, consumed {})", p, wire.len(), r.status(), n)),
                Err(e) => return Err(format!("parser: prefix {} of {} is an error: {:?}", p, wire.len(), e)),
            }
            // 2. Call API
            match call.try_response(win) {
                Ok(None) => {
                    if call.is_finished() {
                        return Err(format!("call: prefix {}: no response but is_finished() is true", p));
                    }
                }
                Ok(Some((n, r))) => {
                    if k1_signature(&case, wire, &w.line_ends, p, n, &r) {
                        st.known_or_fail("partial-redirect-accepted", || {
                            format!("Call::try_response accepted a {} head cut at {} of {} bytes (after its Location line)", case.head.status, p, wire.len())
                        })?;
                        st.excluded(1);
                        st.class("k1_window_call");
                        call = mk_call()?;
                    } else {
                        return Err(format!("call: prefix {} of {} returned a response (status {}, consumed {}, {} fields)", p, wire.len(), r.status(), n, r.headers().len()));
                    }
                }
                Err(e) => return Err(format!("call: prefix {} of {} is an error: {:?}", p, wire.len(), e)),
            }
            // 3. Flow API
            match flow.try_response(win) {
                Ok((0, None)) => {
                    if flow.can_proceed() {
                        return Err(format!("flow: prefix {}: need-more-data but can_proceed() is true", p));
                    }
                }
                Ok((n, None)) => return Err(format!("flow: prefix {} consumed {} bytes without a response", p, n)),
                Ok((n, Some(r))) => {
                    if k1_signature(&case, wire, &w.line_ends, p, n, &r) {
                        st.known_or_fail("partial-redirect-accepted", || {
                            format!("Flow::try_response accepted a {} head cut at {} of {} bytes (after its Location line)", case.head.status, p, wire.len())
                        })?;
                        st.excluded(1);
                        st.class("k1_window_flow");
                        flow = mk_flow()?;
                    } else {
                        return Err(format!("flow: prefix {} of {} returned a response (status {}, consumed {}, {} fields)", p, wire.len(), r.status(), n, r.headers().len()));
                    }
                }
                Err(e) => return Err(format!("flow: prefix {} of {} is an error: {:?}", p, wire.len(), e)),
            }
        }
        // the objects that saw every prefix now get the whole head (+ tail)
        let mut full = wire.clone();
        full.extend_from_slice(&case.tail);
        for (label, input) in [("head+tail", &full), ("head", wire)] {
            st.evals(3);
            match try_parse_response::<MAX_RESPONSE_HEADERS>(input) {
                Ok(Some((n, r))) => check_full(&case, wire, &r, n, "parser")?,
                other => return Err(format!("parser: {} not parsed: {:?}", label, other.map(|o| o.map(|x| x.0)))),
            }
            let mut c2 = if label == "head+tail" { std::mem::replace(&mut call, mk_call()?) } else { mk_call()? };
            match c2.try_response(input) {
                Ok(Some((n, r))) => {
                    check_full(&case, wire, &r, n, "call")?;
                    if !c2.is_finished() {
                        return Err("call: response returned but is_finished() is false".into());
                    }
                }
                other => return Err(format!("call: {} not parsed: {:?}", label, other.map(|o| o.map(|x| x.0)))),
            }
            let mut f2 = if label == "head+tail" { std::mem::replace(&mut flow, mk_flow()?) } else { mk_flow()? };
            match f2.try_response(input) {
                Ok((n, Some(r))) => {
                    check_full(&case, wire, &r, n, "flow")?;
                    if !f2.can_proceed() {
                        return Err("flow: response returned but can_proceed() is false".into());
                    }
                    if f2.proceed().is_none() {
                        return Err("flow: can_proceed() true but proceed() returned None".into());
                    }
                }
                other => return Err(format!("flow: {} not parsed: {:?}", label, other.map(|o| (o.0, o.1.is_some())))),
            }
        }
    } else {
        // more than 128 fields: the complete head is an error on every API
        let mut full = wire.clone();
        full.extend_from_slice(&case.tail);
        st.evals(3);
        if let Ok(v) = try_parse_response::<MAX_RESPONSE_HEADERS>(&full) {
            return Err(format!("parser: head with {} fields accepted: {:?}", nfields, v.map(|x| x.0)));
        }
        let mut call = mk_call()?;
        if let Ok(v) = call.try_response(&full) {
            return Err(format!("call: head with {} fields accepted: {:?}", nfields, v.map(|x| x.0)));
        }
        let mut flow = mk_flow()?;
        if let Ok(v) = flow.try_response(&full) {
            return Err(format!("flow: head with {} fields accepted: {:?}", nfields, (v.0, v.1.is_some())));
        }
        st.nontrivial(st.case_digest);
    }
    if st.wants_sample() && nfields > 2 && nfields < 8 && wire.len() < 300 {
        st.sample(case_json(&case, wire));
    }
    Ok(())
}

pub static DEF: PropDef = PropDef {
    id: "C05",
    rule: "random heads: response version 1.0/1.1, status 101..999 (half of them 3xx), reason in {short, none, empty, \
200 bytes, obs-text}, 0..140 fields (1 % of small heads get a 64-100 KiB value; plain, repeated names in other case, Location, Set-Cookie, valid Content-Length / \
Transfer-Encoding, Connection (also repeated 3..9 times or as one long list), empty values, OWS variants, obs-text), 0..64 tail bytes; 12 % of the flows sent Expect: 100-continue and have seen no 100 yet; 15 % \
first skip a late interim 100 (offered as a prefix, then whole), after which the head comes either prefix by prefix or in one piece; for heads up to 600 bytes EVERY \
strict prefix (else every length <= 200, every line end -2..+2, 120 sampled, the last 3) is offered in ascending order to \
parser::try_parse_response::<128>, one Call<RecvResponse> and one Flow<RecvResponse> (GET/HEAD/POST, request 1.0/1.1): each \
must say need-more-data with 0 consumed, no error, no response, not ready; then head+tail and head alone must yield exactly \
status, version, per-name ordered values, consumed == |head|; > 128 fields => Err on all three. A response on a strict \
prefix is tolerated only if it has the exact signature of known finding K1 (3xx, window holds the complete Location line, \
consumed == window, fields are complete lines of the window + synthetic connection: close). non-trivial = (head, prefix) \
with the cut not at a line end, plus each over-limit head; distinct by (case digest, prefix length).",
    assumptions: &[
        "HeaderMap groups values by name: order is compared per name, not across names",
        "framing field values are valid (invalid ones are C06's domain)",
        "prefixes of heads with more than 128 fields are unconstrained by the statement and not offered",
    ],
    exec,
    enums: &[],
    randoms: &[RandomDef {
        name: "heads",
        cases: |t: Tier| t.pick(30_000, 1_200_000),
        tape_len: 2_600,
        exec: None,
    }],
    extra: None,
};
