#[cfg(feature = "pbt")]
pub mod runner;
pub mod stats;
pub mod tape;
#[cfg(feature = "pbt")]
pub mod tapefuzz;
