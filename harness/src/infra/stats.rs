//! Per-run measurement: what was generated, how much of it was non-trivial, what it looked like.

use serde_json::Value;
use std::collections::{BTreeMap, BTreeSet, HashSet};

use super::tape::mix;

pub const MAX_SAMPLES: usize = 9;
/// hashed distinctness is measured up to this many digests per collector; beyond it non-trivial cases are
/// no longer hashed (and conservatively not counted as distinct), only tallied in `nontrivial_beyond_cap`
pub const HASH_CAP: usize = 24_000_000;
pub const MAX_SAMPLES_PER_STAGE: usize = 3;

#[derive(Default)]
pub struct Stats {
    /// cases executed (one per decoded case, plus explicit sub-evaluations)
    pub evaluations: u64,
    /// digests of distinct cases satisfying the property's non-triviality rule
    pub nontrivial: HashSet<u64>,
    /// non-trivial cases that are distinct by construction (enumeration indices), counted instead of hashed
    pub nontrivial_counted: u64,
    /// non-trivial cases seen after the hash set reached HASH_CAP (not part of distinct_nontrivial)
    pub nontrivial_beyond_cap: u64,
    /// generator-distribution histogram
    pub classes: BTreeMap<&'static str, u64>,
    pub samples: Vec<Value>,
    /// cases (or sub-cases) moved / skipped because they fall inside a listed known finding
    pub excluded_known: u64,
    /// known-finding key -> (hits, first detail)
    pub known_hits: BTreeMap<String, (u64, String)>,
    /// keys listed as `finding:` for this property in KNOWN_FINDINGS.txt
    pub listed_known: BTreeSet<String>,
    /// false while proptest is shrinking: nothing is counted then
    pub recording: bool,
    /// ask the property to produce a human-readable description of the case
    pub want_desc: bool,
    pub desc: Option<Value>,
    /// digest of the case being executed (set by the runner before exec)
    pub case_digest: u64,
    /// strict mode: used on replay, known findings are still honoured
    pub replaying: bool,
    /// the first case this collector executed (fallback sample when a property recorded none)
    pub first_case: Option<(bool, Vec<u32>)>,
}

impl Stats {
    pub fn new(listed_known: BTreeSet<String>) -> Self {
        Stats {
            listed_known,
            recording: true,
            ..Default::default()
        }
    }

    #[inline]
    pub fn evals(&mut self, n: u64) {
        if self.recording {
            self.evaluations += n;
        }
    }

    #[inline]
    pub fn class(&mut self, name: &'static str) {
        if self.recording {
            *self.classes.entry(name).or_insert(0) += 1;
        }
    }

    #[inline]
    pub fn class_n(&mut self, name: &'static str, n: u64) {
        if self.recording && n > 0 {
            *self.classes.entry(name).or_insert(0) += n;
        }
    }

    /// Mark the current case as non-trivial, keyed by `digest` (distinctness).
    #[inline]
    pub fn nontrivial(&mut self, digest: u64) -> bool {
        if self.recording {
            if self.nontrivial.len() >= HASH_CAP {
                self.nontrivial_beyond_cap += 1;
                return false;
            }
            self.nontrivial.insert(digest)
        } else {
            false
        }
    }

    /// `n` non-trivial cases that are distinct by construction (distinct enumeration indices).
    #[inline]
    pub fn count_nontrivial(&mut self, n: u64) {
        if self.recording {
            self.nontrivial_counted += n;
        }
    }

    pub fn distinct_nontrivial(&self) -> u64 {
        self.nontrivial.len() as u64 + self.nontrivial_counted
    }

    /// Non-trivial sub-case `sub` of the current case.
    #[inline]
    pub fn nontrivial_sub(&mut self, sub: u64) -> bool {
        let d = mix(self.case_digest, sub.wrapping_add(0x5bd1_e995));
        self.nontrivial(d)
    }

    pub fn wants_sample(&self) -> bool {
        self.recording && self.samples.len() < MAX_SAMPLES
    }

    pub fn sample(&mut self, v: Value) {
        if self.wants_sample() {
            self.samples.push(v);
        }
    }

    pub fn describe(&mut self, f: impl FnOnce() -> Value) {
        if self.want_desc {
            self.desc = Some(f());
        }
    }

    pub fn excluded(&mut self, n: u64) {
        if self.recording {
            self.excluded_known += n;
        }
    }

    /// A deviation whose computed signature is `key`. If the key is a listed known finding it is
    /// counted and the check goes on; otherwise it is a violation.
    pub fn known_or_fail(&mut self, key: &str, detail: impl FnOnce() -> String) -> Result<(), String> {
        if self.listed_known.contains(key) {
            if self.recording || self.replaying {
                let e = self
                    .known_hits
                    .entry(key.to_string())
                    .or_insert_with(|| (0, String::new()));
                e.0 += 1;
                if e.1.is_empty() {
                    e.1 = detail();
                }
            }
            Ok(())
        } else {
            Err(format!("[{}] {}", key, detail()))
        }
    }

    pub fn merge(&mut self, other: Stats) {
        self.evaluations += other.evaluations;
        self.nontrivial_beyond_cap += other.nontrivial_beyond_cap;
        for d in other.nontrivial {
            if self.nontrivial.len() >= 4 * HASH_CAP {
                self.nontrivial_beyond_cap += 1;
            } else {
                self.nontrivial.insert(d);
            }
        }
        self.nontrivial_counted += other.nontrivial_counted;
        for (k, v) in other.classes {
            *self.classes.entry(k).or_insert(0) += v;
        }
        for s in other.samples.into_iter().take(MAX_SAMPLES_PER_STAGE) {
            if self.samples.len() < MAX_SAMPLES {
                self.samples.push(s);
            }
        }
        if self.first_case.is_none() {
            self.first_case = other.first_case;
        }
        self.excluded_known += other.excluded_known;
        for (k, (n, d)) in other.known_hits {
            let e = self.known_hits.entry(k).or_insert_with(|| (0, String::new()));
            e.0 += n;
            if e.1.is_empty() {
                e.1 = d;
            }
        }
    }
}
