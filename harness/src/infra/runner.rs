//! Generic driver: corpus replay, enumerated stages, proptest-driven random stage with shrinking,
//! evidence, replay files, known findings, exit codes.

use serde_json::{json, Value};
use std::cell::RefCell;
use std::collections::BTreeSet;
use std::panic::{catch_unwind, AssertUnwindSafe};
use std::path::{Path, PathBuf};
use std::time::Instant;

use super::stats::Stats;
use super::tape::{mix, Mode, Tape};

#[derive(Clone, Copy, Debug, PartialEq, Eq)]
pub enum Tier {
    Quick,
    Thorough,
}

impl Tier {
    pub fn name(self) -> &'static str {
        match self {
            Tier::Quick => "quick",
            Tier::Thorough => "thorough",
        }
    }
    pub fn pick<T>(self, q: T, t: T) -> T {
        match self {
            Tier::Quick => q,
            Tier::Thorough => t,
        }
    }
}

pub type Exec = fn(&mut Tape, &mut Stats) -> Result<(), String>;

pub struct EnumDef {
    pub name: &'static str,
    /// number of cells for the tier
    pub count: fn(Tier) -> u64,
    /// direct-mode tape of cell `idx`
    pub tape: fn(Tier, u64) -> Vec<u32>,
    /// the enumeration covers the finite (sub-)domain it names completely
    pub exhaustive: bool,
    /// decoder used for the cells of this stage (defaults to the property's exec)
    pub exec: Option<Exec>,
}

pub struct RandomDef {
    pub name: &'static str,
    /// total cases over all shards
    pub cases: fn(Tier) -> u64,
    pub tape_len: usize,
    pub exec: Option<Exec>,
}

pub struct PropDef {
    pub id: &'static str,
    pub rule: &'static str,
    pub assumptions: &'static [&'static str],
    pub exec: Exec,
    pub enums: &'static [EnumDef],
    pub randoms: &'static [RandomDef],
    /// additional stage run by the property itself (e.g. libFuzzer campaign); returns stage json and violations
    pub extra: Option<fn(&RunCfg, &mut Stats) -> (Value, Vec<Violation>)>,
}

pub struct RunCfg {
    pub tier: Tier,
    pub seed: u64,
    pub threads: usize,
    pub verif_dir: PathBuf,
}

#[derive(Clone, Debug)]
pub struct Violation {
    pub stage: String,
    pub mode: Mode,
    pub tape: Vec<u32>,
    pub message: String,
    pub desc: Option<Value>,
    /// replay path if the violation came from an existing file
    pub from_file: Option<PathBuf>,
}

thread_local! {
    static LAST_PANIC: RefCell<Option<String>> = RefCell::new(None);
}

pub fn install_panic_hook() {
    std::panic::set_hook(Box::new(|info| {
        let loc = info
            .location()
            .map(|l| format!("{}:{}", l.file(), l.line()))
            .unwrap_or_default();
        let msg = if let Some(s) = info.payload().downcast_ref::<&str>() {
            s.to_string()
        } else if let Some(s) = info.payload().downcast_ref::<String>() {
            s.clone()
        } else {
            "<non-string panic>".to_string()
        };
        // the innermost frames of the code under test / the harness tell where it really happened
        let bt = std::backtrace::Backtrace::force_capture().to_string();
        let mut frames: Vec<String> = vec![];
        let lines: Vec<&str> = bt.lines().collect();
        for (i, l) in lines.iter().enumerate() {
            let l = l.trim();
            if (l.contains("ureq_proto::") || l.contains("hootverif::")) && !l.contains("infra::runner") {
                let at = lines.get(i + 1).map(|x| x.trim().trim_start_matches("at ").to_string()).unwrap_or_default();
                let name = l.splitn(2, ": ").nth(1).unwrap_or(l);
                frames.push(format!("{} ({})", name, at));
                if frames.len() >= 3 {
                    break;
                }
            }
        }
        LAST_PANIC.with(|p| *p.borrow_mut() = Some(format!("panic at {}: {} [in {}]", loc, msg, frames.join(" <- "))));
    }));
}

/// Run one case under catch_unwind. A panic anywhere (library or harness) is a failure.
pub fn run_case(exec: Exec, data: &[u32], mode: Mode, st: &mut Stats) -> Result<(), String> {
    let mut tape = Tape::new(data, mode);
    st.case_digest = 0;
    if st.recording && st.first_case.is_none() {
        st.first_case = Some((mode == Mode::Direct, data.to_vec()));
    }
    let r = catch_unwind(AssertUnwindSafe(|| {
        // digest of the raw tape identifies the case for sub-case keys; decoded digest is used by exec
        let mut d = 0x51ed_270b_u64;
        for v in data {
            d = mix(d, *v as u64);
        }
        st.case_digest = d;
        exec(&mut tape, st)
    }));
    match r {
        Ok(r) => r,
        Err(_) => {
            let m = LAST_PANIC
                .with(|p| p.borrow_mut().take())
                .unwrap_or_else(|| "panic".to_string());
            Err(m)
        }
    }
}

fn describe_case(exec: Exec, data: &[u32], mode: Mode, listed: &BTreeSet<String>) -> Option<Value> {
    let mut st = Stats::new(listed.clone());
    st.recording = false;
    st.want_desc = true;
    let _ = run_case(exec, data, mode, &mut st);
    st.desc
}

pub fn load_known(verif_dir: &Path, id: &str) -> BTreeSet<String> {
    let mut out = BTreeSet::new();
    let p = verif_dir.join("KNOWN_FINDINGS.txt");
    if let Ok(s) = std::fs::read_to_string(p) {
        for line in s.lines() {
            let line = line.trim();
            if !line.starts_with("finding:") {
                continue;
            }
            let mut prop = None;
            let mut key = None;
            for tok in line.split_whitespace() {
                if let Some(v) = tok.strip_prefix("property=") {
                    prop = Some(v);
                }
                if let Some(v) = tok.strip_prefix("key=") {
                    key = Some(v);
                }
            }
            if prop == Some(id) {
                if let Some(k) = key {
                    out.insert(k.to_string());
                }
            }
        }
    }
    out
}

fn parse_replay(path: &Path) -> Result<(Mode, Vec<u32>, Option<String>), String> {
    let s = std::fs::read_to_string(path).map_err(|e| format!("{}: {}", path.display(), e))?;
    let v: Value = serde_json::from_str(&s).map_err(|e| format!("{}: {}", path.display(), e))?;
    let mode = match v.get("mode").and_then(|m| m.as_str()) {
        Some("direct") => Mode::Direct,
        Some("bytes") => Mode::Bytes,
        _ => Mode::Scaled,
    };
    let tape = v
        .get("tape")
        .and_then(|t| t.as_array())
        .ok_or_else(|| format!("{}: no tape", path.display()))?
        .iter()
        .map(|x| x.as_u64().unwrap_or(0) as u32)
        .collect();
    let stage = v.get("stage").and_then(|m| m.as_str()).map(|s| s.to_string());
    Ok((mode, tape, stage))
}

fn mode_name(m: Mode) -> &'static str {
    match m {
        Mode::Scaled => "scaled",
        Mode::Direct => "direct",
        Mode::Bytes => "bytes",
    }
}

fn exec_for_stage(def: &PropDef, stage: Option<&str>) -> Exec {
    if let Some(stage) = stage {
        for e in def.enums {
            if e.name == stage {
                if let Some(x) = e.exec {
                    return x;
                }
            }
        }
        for r in def.randoms {
            if r.name == stage {
                if let Some(x) = r.exec {
                    return x;
                }
            }
        }
    }
    def.exec
}

pub fn write_replay(cfg: &RunCfg, def: &PropDef, v: &Violation, n: usize) -> PathBuf {
    if let Some(p) = &v.from_file {
        return p.clone();
    }
    let dir = cfg.verif_dir.join("replays");
    let _ = std::fs::create_dir_all(&dir);
    let path = dir.join(format!(
        "{}-{}-seed{}-{}-{}.json",
        def.id,
        cfg.tier.name(),
        cfg.seed,
        v.stage.replace(|c: char| !c.is_ascii_alphanumeric(), "_"),
        n
    ));
    let j = json!({
        "property": def.id,
        "stage": v.stage,
        "mode": mode_name(v.mode),
        "tape": v.tape,
        "seed": cfg.seed,
        "message": v.message,
        "case": v.desc,
    });
    let _ = std::fs::write(&path, serde_json::to_string(&j).unwrap() + "\n");
    path
}

/// Replay one file in strict mode. Returns Ok(known-finding lines) or the violation.
pub fn replay_file(def: &PropDef, verif_dir: &Path, path: &Path) -> Result<Stats, Violation> {
    let listed = load_known(verif_dir, def.id);
    let (mode, tape, stage) = match parse_replay(path) {
        Ok(v) => v,
        Err(e) => {
            return Err(Violation {
                stage: "replay".into(),
                mode: Mode::Scaled,
                tape: vec![],
                message: format!("unreadable replay file: {}", e),
                desc: None,
                from_file: Some(path.to_path_buf()),
            })
        }
    };
    let exec = exec_for_stage(def, stage.as_deref());
    let mut st = Stats::new(listed.clone());
    st.replaying = true;
    st.want_desc = true;
    match run_case(exec, &tape, mode, &mut st) {
        Ok(()) => Ok(st),
        Err(m) => Err(Violation {
            stage: stage.unwrap_or_else(|| "replay".into()),
            mode,
            tape,
            message: m,
            desc: st.desc.take(),
            from_file: Some(path.to_path_buf()),
        }),
    }
}

struct StageOut {
    stats: Stats,
    violation: Option<Violation>,
    info: Value,
}

/// Coverage corpus files (`cov-<stage>.json`: {"stage", "mode": "bytes", "tapes_hex": [...]}) hold the tapes a coverage-guided
/// campaign kept because each reached code no earlier tape had reached; they are replayed like any other regression input.
fn parse_multi(path: &Path) -> Option<Vec<(Mode, Vec<u32>, Option<String>)>> {
    let s = std::fs::read_to_string(path).ok()?;
    let v: Value = serde_json::from_str(&s).ok()?;
    let list = v.get("tapes_hex")?.as_array()?;
    let stage = v.get("stage").and_then(|m| m.as_str()).map(|s| s.to_string());
    let mut out = vec![];
    for h in list {
        let h = h.as_str()?.as_bytes();
        let mut tape = Vec::with_capacity(h.len() / 2);
        for pair in h.chunks(2) {
            let d = |c: u8| (c as char).to_digit(16).unwrap_or(0);
            tape.push(d(pair[0]) * 16 + d(*pair.get(1).unwrap_or(&b'0')));
        }
        out.push((Mode::Bytes, tape, stage.clone()));
    }
    Some(out)
}

fn run_corpus(def: &PropDef, cfg: &RunCfg, listed: &BTreeSet<String>) -> (Stats, Vec<Violation>, Value) {
    let dir = cfg.verif_dir.join("corpus").join(def.id);
    let mut files: Vec<PathBuf> = std::fs::read_dir(&dir)
        .map(|rd| {
            rd.filter_map(|e| e.ok())
                .map(|e| e.path())
                .filter(|p| p.extension().map(|e| e == "json").unwrap_or(false))
                .collect()
        })
        .unwrap_or_default();
    files.sort();
    let mut st = Stats::new(listed.clone());
    let mut viols = vec![];
    let mut cases = 0u64;
    let mut cov_cases = 0u64;
    for f in &files {
        let multi = parse_multi(f);
        let is_cov = multi.is_some();
        let items: Vec<Result<(Mode, Vec<u32>, Option<String>), String>> = match multi {
            Some(v) => v.into_iter().map(Ok).collect(),
            None => vec![parse_replay(f)],
        };
        for (k, item) in items.into_iter().enumerate() {
            match item {
                Ok((mode, tape, stage)) => {
                    let exec = exec_for_stage(def, stage.as_deref());
                    st.evals(0);
                    cases += 1;
                    if is_cov {
                        cov_cases += 1;
                    }
                    if let Err(m) = run_case(exec, &tape, mode, &mut st) {
                        let desc = describe_case(exec, &tape, mode, listed);
                        viols.push(Violation {
                            stage: stage.unwrap_or_else(|| "corpus".into()),
                            mode,
                            tape,
                            message: if is_cov { format!("[coverage corpus {} #{}] {}", f.file_name().unwrap().to_string_lossy(), k, m) } else { m },
                            desc,
                            // a single-case file is its own replay file; a case of a multi-tape file gets one written
                            from_file: if is_cov { None } else { Some(f.clone()) },
                        });
                        if is_cov {
                            break;
                        }
                    }
                }
                Err(e) => viols.push(Violation {
                    stage: "corpus".into(),
                    mode: Mode::Scaled,
                    tape: vec![],
                    message: e,
                    desc: None,
                    from_file: Some(f.clone()),
                }),
            }
        }
    }
    let info = json!({"stage": "corpus", "files": files.len(), "cases": cases, "of_which_coverage_corpus_tapes": cov_cases, "evaluations": st.evaluations});
    (st, viols, info)
}

fn run_enum(def: &PropDef, e: &EnumDef, cfg: &RunCfg, listed: &BTreeSet<String>) -> StageOut {
    let total = (e.count)(cfg.tier);
    let exec = e.exec.unwrap_or(def.exec);
    let nshards = cfg.threads.max(1) as u64;
    let tier = cfg.tier;
    let results: Vec<(Stats, Option<(u64, Vec<u32>, String)>)> = std::thread::scope(|s| {
        let handles: Vec<_> = (0..nshards)
            .map(|shard| {
                let listed = listed.clone();
                s.spawn(move || {
                    let mut st = Stats::new(listed);
                    let mut fail = None;
                    let mut idx = shard;
                    while idx < total {
                        let tape = (e.tape)(tier, idx);
                        if let Err(m) = run_case(exec, &tape, Mode::Direct, &mut st) {
                            fail = Some((idx, tape, m));
                            break;
                        }
                        idx += nshards;
                    }
                    (st, fail)
                })
            })
            .collect();
        handles.into_iter().map(|h| h.join().expect("enum shard")).collect()
    });
    let mut stats = Stats::new(listed.clone());
    let mut first: Option<(u64, Vec<u32>, String)> = None;
    for (st, f) in results {
        stats.merge(st);
        if let Some(f) = f {
            if first.as_ref().map(|x| f.0 < x.0).unwrap_or(true) {
                first = Some(f);
            }
        }
    }
    let violation = first.map(|(_, tape, message)| {
        let desc = describe_case(exec, &tape, Mode::Direct, listed);
        Violation {
            stage: e.name.to_string(),
            mode: Mode::Direct,
            tape,
            message,
            desc,
            from_file: None,
        }
    });
    let complete = violation.is_none();
    let info = json!({"stage": e.name, "kind": "enumeration", "cells": total,
        "exhaustive_for_named_domain": e.exhaustive && complete, "evaluations": stats.evaluations});
    StageOut {
        stats,
        violation,
        info,
    }
}

#[cfg(feature = "pbt")]
fn run_random(def: &PropDef, r: &RandomDef, cfg: &RunCfg, listed: &BTreeSet<String>, stage_no: u64) -> StageOut {
    use proptest::collection::vec;
    use proptest::prelude::any;
    use proptest::test_runner::{Config, RngAlgorithm, RngSeed, TestCaseError, TestError, TestRng, TestRunner};

    let exec = r.exec.unwrap_or(def.exec);
    let total = (r.cases)(cfg.tier);
    let nshards = (cfg.threads.max(1) as u64).min(total.max(1));
    let per = (total + nshards - 1) / nshards;
    let tape_len = r.tape_len;
    let id_hash = super::tape::hash_bytes(def.id.as_bytes());
    let seed = cfg.seed;

    let results: Vec<(Stats, Option<(Vec<u32>, String)>, u64, u64)> = std::thread::scope(|s| {
        let handles: Vec<_> = (0..nshards)
            .map(|shard| {
                let listed = listed.clone();
                s.spawn(move || {
                    let derived = mix(mix(mix(seed, id_hash), stage_no), shard);
                    let mut seed_bytes = [0u8; 32];
                    let mut x = derived;
                    for chunk in seed_bytes.chunks_mut(8) {
                        x = mix(x, 0xA5A5_5A5A);
                        chunk.copy_from_slice(&x.to_le_bytes());
                    }
                    let config = Config {
                        cases: per as u32,
                        failure_persistence: None,
                        max_shrink_iters: 60_000,
                        // a failing case can be slow (bounded driver loops run to their guard): shrinking is cut off after a minute
                        max_shrink_time: 60_000,
                        rng_seed: RngSeed::Fixed(derived),
                        ..Config::default()
                    };
                    let rng = TestRng::from_seed(RngAlgorithm::ChaCha, &seed_bytes);
                    let mut runner = TestRunner::new_with_rng(config, rng);
                    let st = RefCell::new(Stats::new(listed));
                    let failed = std::cell::Cell::new(false);
                    let ncases = std::cell::Cell::new(0u64);
                    // tapes: mostly full length, sometimes short (short tapes decode their tail as zeros)
                    let strat = vec(any::<u32>(), (tape_len / 4)..=tape_len);
                    let res = runner.run(&strat, |tape| {
                        let mut st = st.borrow_mut();
                        if failed.get() {
                            st.recording = false;
                        } else {
                            ncases.set(ncases.get() + 1);
                        }
                        match run_case(exec, &tape, Mode::Scaled, &mut st) {
                            Ok(()) => Ok(()),
                            Err(m) => {
                                failed.set(true);
                                st.recording = false;
                                Err(TestCaseError::fail(m))
                            }
                        }
                    });
                    let fail = match res {
                        Ok(()) => None,
                        Err(TestError::Fail(reason, tape)) => Some((tape, reason.message().to_string())),
                        Err(TestError::Abort(reason)) => Some((vec![], format!("proptest aborted: {}", reason.message()))),
                    };
                    (st.into_inner(), fail, shard, ncases.get())
                })
            })
            .collect();
        handles.into_iter().map(|h| h.join().expect("random shard")).collect()
    });
    let mut stats = Stats::new(listed.clone());
    let mut first: Option<(Vec<u32>, String, u64)> = None;
    let mut cases_executed = 0u64;
    for (st, f, shard, n) in results {
        cases_executed += n;
        stats.merge(st);
        if let Some((tape, msg)) = f {
            // keep the shortest reproduction
            if first.as_ref().map(|x| tape.len() < x.0.len()).unwrap_or(true) {
                first = Some((tape, msg, shard));
            }
        }
    }
    let violation = first.map(|(tape, _msg, _)| {
        // message of the *shrunk* case, from a strict re-execution
        let mut st = Stats::new(listed.clone());
        st.recording = false;
        st.want_desc = true;
        let message = match run_case(exec, &tape, Mode::Scaled, &mut st) {
            Err(m) => m,
            Ok(()) => format!("(shrunk case passes on re-execution; original message: {})", _msg),
        };
        Violation {
            stage: r.name.to_string(),
            mode: Mode::Scaled,
            tape,
            message,
            desc: st.desc.take(),
            from_file: None,
        }
    });
    let info = json!({"stage": r.name, "kind": "random (proptest, shrinking)", "cases_requested": total, "cases_executed_before_any_failure": cases_executed,
        "shards": nshards, "tape_len": tape_len, "evaluations": stats.evaluations});
    StageOut {
        stats,
        violation,
        info,
    }
}

/// Build one cargo-fuzz target of harness/fuzz (nightly, -O, ASan; overflow checks and debug assertions on).
pub fn build_fuzz_target(verif_dir: &Path, name: &str, asan: bool) -> Result<PathBuf, String> {
    use std::process::Command;
    let fuzz_dir = verif_dir.join("harness").join("fuzz");
    if !fuzz_dir.join("Cargo.toml").exists() {
        return Err("fuzz package missing".into());
    }
    // two build configurations, two target directories: ASan for the byte-level target (its dependencies contain unsafe code),
    // none for the tape target (ureq-proto forbids unsafe code; the run is four times faster)
    let target_dir = fuzz_dir.join(if asan { "target" } else { "target-nosan" });
    let mut args = vec!["+nightly", "fuzz", "build", "-O"];
    if !asan {
        args.extend(["-s", "none"]);
    }
    args.push(name);
    let build = Command::new("cargo")
        .args(&args)
        .current_dir(&fuzz_dir)
        .env("CARGO_NET_OFFLINE", "true")
        .env("CARGO_TARGET_DIR", &target_dir)
        .output();
    match build {
        Ok(o) if o.status.success() => {}
        Ok(o) => {
            return Err(format!(
                "cargo fuzz build failed: {}",
                String::from_utf8_lossy(&o.stderr).lines().rev().take(5).collect::<Vec<_>>().join(" | ")
            ))
        }
        Err(e) => return Err(format!("cargo fuzz not runnable: {}", e)),
    }
    let bin = target_dir.join("x86_64-unknown-linux-gnu/release").join(name);
    if !bin.exists() {
        return Err(format!("fuzz binary not found at {}", bin.display()));
    }
    Ok(bin)
}

/// Thorough tier: coverage-guided search (libFuzzer) over the choice tapes of every random stage of the property,
/// same decoder, same oracle. A saved artifact is replayed in-process, shrunk and reported like any other failure.
#[cfg(feature = "pbt")]
fn run_tapefuzz(def: &PropDef, cfg: &RunCfg, listed: &BTreeSet<String>, total: &mut Stats) -> (Vec<Value>, Vec<Violation>) {
    use std::process::Command;
    let mut infos = vec![];
    let mut viols = vec![];
    if cfg.tier != Tier::Thorough || def.randoms.is_empty() {
        return (infos, viols);
    }
    if std::env::var("VERIF_TAPEFUZZ").ok().as_deref() == Some("0") {
        infos.push(json!({"stage": "tapefuzz", "ran": false, "reason": "disabled by VERIF_TAPEFUZZ=0"}));
        return (infos, viols);
    }
    let bin = match build_fuzz_target(&cfg.verif_dir, "tapefuzz", false) {
        Ok(b) => b,
        Err(e) => {
            infos.push(json!({"stage": "tapefuzz", "ran": false, "reason": e}));
            return (infos, viols);
        }
    };
    let runs: u64 = std::env::var("VERIF_TAPEFUZZ_RUNS").ok().and_then(|s| s.parse().ok()).unwrap_or(120_000);
    let max_time: u64 = std::env::var("VERIF_TAPEFUZZ_MAX_S").ok().and_then(|s| s.parse().ok()).unwrap_or(600);
    let workers = cfg.threads.max(1);
    for r in def.randoms {
        let exec = r.exec.unwrap_or(def.exec);
        let work = cfg
            .verif_dir
            .join("harness/fuzz/work")
            .join(format!("{}-{}-seed{}-{}", def.id, r.name, cfg.seed, std::process::id()));
        let _ = std::fs::remove_dir_all(&work);
        let corpus = work.join("corpus");
        let out = work.join("out");
        let _ = std::fs::create_dir_all(&corpus);
        let _ = std::fs::create_dir_all(&out);
        // seed corpus: deterministic pseudo-random tapes, the all-zero tape, and the committed regression tapes of this stage
        let seeds = super::tapefuzz::seed_corpus(mix(cfg.seed, super::tape::hash_bytes(def.id.as_bytes())), r.tape_len * 2, 48);
        for (i, s) in seeds.iter().enumerate() {
            let _ = std::fs::write(corpus.join(format!("seed{:03}", i)), s);
        }
        let cov_dir = cfg.verif_dir.join("corpus").join(def.id);
        let mut n_cov = 0;
        if let Ok(rd) = std::fs::read_dir(&cov_dir) {
            for e in rd.flatten() {
                let items = match parse_multi(&e.path()) {
                    Some(v) => v,
                    None => parse_replay(&e.path()).map(|x| vec![x]).unwrap_or_default(),
                };
                for (mode, tape, stage) in items {
                    if mode == Mode::Bytes && stage.as_deref() == Some(r.name) {
                        let b: Vec<u8> = tape.iter().map(|v| *v as u8).collect();
                        let _ = std::fs::write(corpus.join(format!("reg{:05}", n_cov)), b);
                        n_cov += 1;
                    }
                }
            }
        }
        let mut handles = vec![];
        for w in 0..workers {
            let arts = work.join(format!("artifacts{}", w));
            let _ = std::fs::create_dir_all(&arts);
            let mut cmd = Command::new(&bin);
            cmd.arg(&corpus)
                .arg(format!("-artifact_prefix={}/", arts.display()))
                .arg(format!("-runs={}", runs))
                .arg(format!("-max_total_time={}", max_time))
                .arg(format!("-seed={}", (cfg.seed.wrapping_mul(64) + w as u64 + 1) & 0x7fff_ffff))
                .arg(format!("-max_len={}", (r.tape_len * 2).max(64)))
                .arg("-len_control=0")
                .arg("-timeout=60")
                .arg("-rss_limit_mb=6144")
                .arg("-print_final_stats=1")
                .env("HV_PROP", def.id)
                .env("HV_STAGE", r.name)
                .env("HV_OUT", &out)
                .env("VERIF_DIR", &cfg.verif_dir)
                .current_dir(&work);
            handles.push((w, arts, std::thread::spawn(move || cmd.output())));
        }
        let mut execs = 0u64;
        let mut crashed = 0usize;
        let mut seen_tapes: BTreeSet<Vec<u32>> = BTreeSet::new();
        let mut unreproduced = 0usize;
        for (_w, arts, h) in handles {
            let o = match h.join() {
                Ok(Ok(o)) => o,
                _ => continue,
            };
            let err = String::from_utf8_lossy(&o.stderr).to_string();
            for line in err.lines() {
                if let Some(v) = line.strip_prefix("stat::number_of_executed_units:") {
                    execs += v.trim().parse::<u64>().unwrap_or(0);
                }
            }
            if o.status.success() {
                continue;
            }
            crashed += 1;
            if let Ok(rd) = std::fs::read_dir(&arts) {
                for e in rd.flatten() {
                    let name = e.file_name().to_string_lossy().to_string();
                    if !(name.starts_with("crash-") || name.starts_with("timeout-") || name.starts_with("oom-")) {
                        continue;
                    }
                    let bytes = std::fs::read(e.path()).unwrap_or_default();
                    let tape: Vec<u32> = bytes.iter().map(|b| *b as u32).collect();
                    let mut st = Stats::new(listed.clone());
                    st.recording = false;
                    if run_case(exec, &tape, Mode::Bytes, &mut st).is_ok() {
                        // a timeout / out-of-memory report of libFuzzer that is no oracle failure: inconclusive, not a violation
                        unreproduced += 1;
                        continue;
                    }
                    let small = super::tapefuzz::shrink(exec, tape, listed, 4_000);
                    if !seen_tapes.insert(small.clone()) {
                        continue;
                    }
                    let mut st = Stats::new(listed.clone());
                    st.recording = false;
                    st.want_desc = true;
                    let message = match run_case(exec, &small, Mode::Bytes, &mut st) {
                        Err(m) => m,
                        Ok(()) => "(shrunk case passes on re-execution)".to_string(),
                    };
                    if viols.len() < 4 {
                        viols.push(Violation {
                            stage: r.name.to_string(),
                            mode: Mode::Bytes,
                            tape: small,
                            message: format!("[found by coverage-guided tape fuzzing] {}", message),
                            desc: st.desc.take(),
                            from_file: None,
                        });
                    }
                }
            }
        }
        // worker statistics (written by the target at exit)
        let mut f_evals = 0u64;
        let mut f_nontrivial = 0u64;
        let mut f_excluded = 0u64;
        let mut f_classes: std::collections::BTreeMap<String, u64> = Default::default();
        if let Ok(rd) = std::fs::read_dir(&out) {
            for e in rd.flatten() {
                if let Ok(s) = std::fs::read_to_string(e.path()) {
                    if let Ok(v) = serde_json::from_str::<Value>(&s) {
                        f_evals += v["evaluations"].as_u64().unwrap_or(0);
                        f_nontrivial += v["distinct_nontrivial"].as_u64().unwrap_or(0);
                        f_excluded += v["excluded_known"].as_u64().unwrap_or(0);
                        if let Some(m) = v["classes"].as_object() {
                            for (k, n) in m {
                                *f_classes.entry(k.clone()).or_insert(0) += n.as_u64().unwrap_or(0);
                            }
                        }
                        if let Some(a) = v["known_hits"].as_array() {
                            for k in a {
                                let e = total
                                    .known_hits
                                    .entry(k["key"].as_str().unwrap_or("").to_string())
                                    .or_insert_with(|| (0, String::new()));
                                e.0 += k["hits"].as_u64().unwrap_or(0);
                                if e.1.is_empty() {
                                    e.1 = k["first"].as_str().unwrap_or("").to_string();
                                }
                            }
                        }
                    }
                }
            }
        }
        let corpus_units = std::fs::read_dir(&corpus).map(|rd| rd.count()).unwrap_or(0);
        // optionally keep the coverage corpus (for committing it as regression input)
        if let Ok(keep) = std::env::var("VERIF_TAPEFUZZ_KEEP") {
            let dst = PathBuf::from(keep).join(format!("{}-{}", def.id, r.name));
            let _ = std::fs::create_dir_all(&dst);
            let _ = Command::new(&bin)
                .arg("-merge=1")
                .arg(&dst)
                .arg(&corpus)
                .env("HV_PROP", def.id)
                .env("HV_STAGE", r.name)
                .env("VERIF_DIR", &cfg.verif_dir)
                .current_dir(&work)
                .output();
        }
        total.evals(f_evals.max(execs));
        total.excluded(f_excluded);
        infos.push(json!({"stage": format!("tapefuzz:{}", r.name), "kind": "coverage-guided (libFuzzer) search over the stage's choice tape, same decoder and oracle",
            "ran": true, "workers": workers, "runs_per_worker": runs, "max_total_time_s": max_time, "executions": execs,
            "evaluations": f_evals, "nontrivial_cases_distinct_per_worker_summed": f_nontrivial,
            "corpus_units_with_new_coverage": corpus_units, "seed_units": seeds.len() + n_cov,
            "workers_ended_by_a_failure": crashed, "timeouts_or_oom_not_reproduced_as_failures": unreproduced,
            "classes": f_classes}));
        let _ = std::fs::remove_dir_all(&work);
    }
    (infos, viols)
}

/// A stage whose property recorded no sample still shows what its cases look like: the first case it executed.
fn fallback_sample(st: &mut Stats, exec: Exec, stage: &str, listed: &BTreeSet<String>) {
    if !st.samples.is_empty() {
        return;
    }
    if let Some((direct, tape)) = st.first_case.clone() {
        let mode = if direct { Mode::Direct } else { Mode::Scaled };
        if let Some(d) = describe_case(exec, &tape, mode, listed) {
            st.samples.push(json!({"stage": stage, "first_case_of_stage": d}));
        }
    }
}

pub struct Outcome {
    pub violations: Vec<(Violation, PathBuf)>,
    pub known_lines: Vec<String>,
    pub evidence_path: PathBuf,
    pub summary: String,
}

#[cfg(feature = "pbt")]
pub fn run_property(def: &PropDef, cfg: &RunCfg) -> Outcome {
    let t0 = Instant::now();
    let listed = load_known(&cfg.verif_dir, def.id);
    let mut total = Stats::new(listed.clone());
    let mut stages: Vec<Value> = vec![];
    let mut viols: Vec<Violation> = vec![];
    let mut all_exhaustive = !def.enums.is_empty() && def.randoms.is_empty();

    let (st, v, info) = run_corpus(def, cfg, &listed);
    total.merge(st);
    viols.extend(v);
    stages.push(info);

    // tooling only (never used by a registered command): VERIF_STAGES=tapefuzz runs just the corpus and the coverage-guided stage
    let only_fuzz = std::env::var("VERIF_STAGES").ok().as_deref() == Some("tapefuzz");
    for e in def.enums {
        if only_fuzz {
            all_exhaustive = false;
            break;
        }
        let mut out = run_enum(def, e, cfg, &listed);
        fallback_sample(&mut out.stats, e.exec.unwrap_or(def.exec), e.name, &listed);
        total.merge(out.stats);
        stages.push(out.info);
        if !e.exhaustive {
            all_exhaustive = false;
        }
        if let Some(v) = out.violation {
            viols.push(v);
            all_exhaustive = false;
        }
    }
    for (i, r) in def.randoms.iter().enumerate() {
        if only_fuzz {
            break;
        }
        let mut out = run_random(def, r, cfg, &listed, i as u64);
        fallback_sample(&mut out.stats, r.exec.unwrap_or(def.exec), r.name, &listed);
        total.merge(out.stats);
        stages.push(out.info);
        if let Some(v) = out.violation {
            viols.push(v);
        }
    }
    {
        let (infos, v) = run_tapefuzz(def, cfg, &listed, &mut total);
        stages.extend(infos);
        viols.extend(v);
    }
    if let Some(extra) = def.extra {
        let (info, v) = extra(cfg, &mut total);
        stages.push(info);
        viols.extend(v);
        all_exhaustive = false;
    }

    let violations: Vec<(Violation, PathBuf)> = viols
        .into_iter()
        .enumerate()
        .map(|(i, v)| {
            let p = write_replay(cfg, def, &v, i);
            (v, p)
        })
        .collect();

    let known_lines: Vec<String> = total
        .known_hits
        .iter()
        .map(|(k, (n, d))| format!("KNOWN-FINDING: property={} key={} hits={} {}", def.id, k, n, d))
        .collect();

    let wall = t0.elapsed().as_secs_f64();
    let classes: serde_json::Map<String, Value> = total
        .classes
        .iter()
        .map(|(k, v)| (k.to_string(), json!(v)))
        .collect();
    let known: Vec<Value> = total
        .known_hits
        .iter()
        .map(|(k, (n, d))| json!({"key": k, "hits": n, "first": d}))
        .collect();
    let evidence = json!({
        "property_id": def.id,
        "tier": cfg.tier.name(),
        "seed": cfg.seed,
        "level": "exploration",
        "coverage": {
            "evaluations": total.evaluations,
            "distinct_nontrivial": total.distinct_nontrivial(),
            "distinct_nontrivial_hashed": total.nontrivial.len(),
            "distinct_nontrivial_by_enumeration_index": total.nontrivial_counted,
            "nontrivial_beyond_hash_cap_not_counted": total.nontrivial_beyond_cap,
            "rule": def.rule,
            "samples": total.samples,
            "exhaustive": all_exhaustive,
            "classes": classes,
            "excluded_known": total.excluded_known,
            "known_findings_hit": known,
            "stages": stages,
        },
        "assumptions": def.assumptions,
        "wall_s": (wall * 1000.0).round() / 1000.0,
        "violations": violations.len(),
    });
    let evidence_path = cfg.verif_dir.join("evidence").join(format!("{}.json", def.id));
    let _ = std::fs::create_dir_all(evidence_path.parent().unwrap());
    std::fs::write(&evidence_path, serde_json::to_string_pretty(&evidence).unwrap()).expect("write evidence");

    let summary = format!(
        "{} tier={} seed={} evaluations={} distinct_nontrivial={} excluded_known={} violations={} wall={:.1}s",
        def.id,
        cfg.tier.name(),
        cfg.seed,
        total.evaluations,
        total.distinct_nontrivial(),
        total.excluded_known,
        violations.len(),
        wall
    );
    Outcome {
        violations,
        known_lines,
        evidence_path,
        summary,
    }
}

/// Mixed-radix decomposition helper for enumerations: index -> digits (least significant first).
pub fn radix(mut idx: u64, bases: &[u64]) -> Vec<u32> {
    let mut out = Vec::with_capacity(bases.len());
    for b in bases {
        out.push((idx % b) as u32);
        idx /= b;
    }
    out
}

pub fn product(bases: &[u64]) -> u64 {
    bases.iter().product()
}
