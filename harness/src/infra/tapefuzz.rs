//! Coverage-guided search over the *same* generators and oracles as the proptest stages.
//!
//! libFuzzer mutates a byte string; the byte string is the choice tape (`Mode::Bytes`) of one random stage of one
//! property, selected through the environment (`HV_PROP`, `HV_STAGE`). The stage's decoder turns it into a case,
//! the property's oracle judges it. A failed oracle aborts the process, so libFuzzer saves the input; the runner
//! replays that input in-process (with the ordinary panic capture), shrinks it and writes an ordinary replay file.
//!
//! This file holds the in-target side (`one_input`) and the pure helpers the runner needs (seed corpus, shrinking).

use std::collections::BTreeSet;
use std::sync::{Mutex, OnceLock};

use super::runner::{load_known, run_case, Exec, PropDef};
use super::stats::Stats;
use super::tape::{mix, Mode, Tape};

struct Target {
    exec: Exec,
    stats: Stats,
    out: Option<std::path::PathBuf>,
    prop: String,
    stage: String,
}

static TARGET: OnceLock<Mutex<Target>> = OnceLock::new();

extern "C" {
    fn atexit(cb: extern "C" fn()) -> i32;
}

extern "C" fn dump_stats() {
    if let Some(m) = TARGET.get() {
        if let Ok(t) = m.lock() {
            if let Some(dir) = &t.out {
                let classes: serde_json::Map<String, serde_json::Value> =
                    t.stats.classes.iter().map(|(k, v)| (k.to_string(), serde_json::json!(v))).collect();
                let known: Vec<serde_json::Value> = t
                    .stats
                    .known_hits
                    .iter()
                    .map(|(k, (n, d))| serde_json::json!({"key": k, "hits": n, "first": d}))
                    .collect();
                let j = serde_json::json!({
                    "property": t.prop, "stage": t.stage,
                    "evaluations": t.stats.evaluations,
                    "distinct_nontrivial": t.stats.distinct_nontrivial(),
                    "excluded_known": t.stats.excluded_known,
                    "classes": classes,
                    "known_hits": known,
                });
                let _ = std::fs::create_dir_all(dir);
                let _ = std::fs::write(dir.join(format!("stats-{}.json", std::process::id())), j.to_string());
            }
        }
    }
}

pub fn stage_exec(def: &PropDef, stage: &str) -> Option<(Exec, usize)> {
    def.randoms
        .iter()
        .find(|r| r.name == stage)
        .map(|r| (r.exec.unwrap_or(def.exec), r.tape_len))
}

fn init() -> Mutex<Target> {
    let prop = std::env::var("HV_PROP").expect("HV_PROP");
    let stage = std::env::var("HV_STAGE").expect("HV_STAGE");
    let def = crate::props::by_id(&prop).expect("unknown property");
    let (exec, _) = stage_exec(def, &stage).expect("unknown random stage");
    let verif = std::path::PathBuf::from(std::env::var("VERIF_DIR").unwrap_or_else(|_| "/verif".into()));
    let listed = load_known(&verif, def.id);
    let mut stats = Stats::new(listed);
    stats.recording = true;
    let out = std::env::var("HV_OUT").ok().map(std::path::PathBuf::from);
    unsafe {
        atexit(dump_stats);
    }
    Mutex::new(Target { exec, stats, out, prop, stage })
}

/// libFuzzer entry: one byte string = one case. Never returns on a violated oracle.
pub fn one_input(data: &[u8]) {
    let m = TARGET.get_or_init(init);
    let mut t = m.lock().unwrap();
    let tape: Vec<u32> = data.iter().map(|b| *b as u32).collect();
    let exec = t.exec;
    // the hash set of distinct non-trivial digests is bounded per worker
    if t.stats.nontrivial.len() > 3_000_000 {
        let n = t.stats.nontrivial.len() as u64;
        t.stats.nontrivial.clear();
        t.stats.nontrivial_counted += n;
    }
    let mut d = 0x51ed_270b_u64;
    for v in &tape {
        d = mix(d, *v as u64);
    }
    t.stats.case_digest = d;
    let mut tp = Tape::new(&tape, Mode::Bytes);
    // no catch_unwind here: libfuzzer-sys aborts on any panic, which is what saves the input
    if let Err(msg) = exec(&mut tp, &mut t.stats) {
        eprintln!("TAPEFUZZ-ORACLE property={} stage={} : {}", t.prop, t.stage, msg);
        drop(t);
        dump_stats();
        std::process::abort();
    }
}

/// Deterministic seed corpus: `count` byte tapes of `len` bytes (plus the all-zero tape, the simplest case).
pub fn seed_corpus(seed: u64, len: usize, count: usize) -> Vec<Vec<u8>> {
    let mut out = vec![vec![0u8; 8]];
    let mut x = mix(seed, 0x7461_7065);
    for i in 0..count {
        let l = if i % 3 == 0 { len / 4 } else { len };
        let mut v = Vec::with_capacity(l);
        while v.len() < l {
            x = mix(x, v.len() as u64 + 1);
            v.extend_from_slice(&x.to_le_bytes());
        }
        v.truncate(l);
        out.push(v);
    }
    out
}

/// Greedy shrinker for a failing byte tape (the proptest shrinker is not involved in this stage): delete blocks,
/// then zero bytes, then halve bytes, as long as the case keeps failing; bounded by `budget` executions.
pub fn shrink(exec: Exec, start: Vec<u32>, listed: &BTreeSet<String>, budget: usize) -> Vec<u32> {
    let fails = |t: &[u32]| -> bool {
        let mut st = Stats::new(listed.clone());
        st.recording = false;
        run_case(exec, t, Mode::Bytes, &mut st).is_err()
    };
    let mut cur = start;
    let mut left = budget;
    let t0 = std::time::Instant::now();
    let mut progress = true;
    while progress && left > 0 && t0.elapsed().as_secs() < 90 {
        progress = false;
        // 1. drop the tail / blocks
        let mut size = cur.len() / 2;
        while size >= 1 && left > 0 {
            let mut i = 0;
            while i + size <= cur.len() && left > 0 {
                let mut cand = cur.clone();
                cand.drain(i..i + size);
                left -= 1;
                if fails(&cand) {
                    cur = cand;
                    progress = true;
                } else {
                    i += size;
                }
            }
            size /= 2;
        }
        // 2. simplify single bytes
        for i in 0..cur.len() {
            if left == 0 {
                break;
            }
            if cur[i] == 0 {
                continue;
            }
            for cand_v in [0, cur[i] / 2, cur[i] - 1] {
                if cand_v >= cur[i] || left == 0 {
                    continue;
                }
                let mut cand = cur.clone();
                cand[i] = cand_v;
                left -= 1;
                if fails(&cand) {
                    cur = cand;
                    progress = true;
                    break;
                }
            }
        }
    }
    cur
}
