//! Choice tape: every generated case is decoded from a sequence of u32 choices.
//!
//! * In *scaled* mode (random generation, proptest owns the `Vec<u32>` and shrinks it) a choice
//!   `v` over a range of `n` alternatives decodes to `v * n >> 32`: monotone, so shrinking a number
//!   towards zero moves the decoded choice towards alternative 0, which every decoder reserves for
//!   the simplest behaviour.
//! * In *direct* mode (enumerated domains) a choice is the alternative's index itself (clamped).
//!
//! A tape that runs out yields zeros. The tape also keeps a digest of the decoded choices, which
//! is what "distinct case" means in the evidence files.

#[derive(Clone, Copy, Debug, PartialEq, Eq)]
pub enum Mode {
    Scaled,
    Direct,
    /// coverage-guided fuzzing: the tape is a byte string (one byte per element); a choice among `n`
    /// alternatives reads 1, 2 or 4 bytes (big-endian) depending on `n` and is scaled like `Scaled`
    Bytes,
}

pub struct Tape<'a> {
    data: &'a [u32],
    pos: usize,
    mode: Mode,
    digest: u64,
    overrun: usize,
}

#[inline]
pub fn mix(h: u64, v: u64) -> u64 {
    let mut x = h ^ v.wrapping_mul(0x9E37_79B9_7F4A_7C15);
    x ^= x >> 32;
    x = x.wrapping_mul(0xD6E8_FEB8_6659_FD93);
    x ^= x >> 29;
    x
}

pub fn hash_bytes(b: &[u8]) -> u64 {
    let mut h = 0xcbf2_9ce4_8422_2325u64;
    for c in b {
        h ^= *c as u64;
        h = h.wrapping_mul(0x1000_0000_01b3);
    }
    h
}

impl<'a> Tape<'a> {
    pub fn new(data: &'a [u32], mode: Mode) -> Self {
        Tape {
            data,
            pos: 0,
            mode,
            digest: 0x1234_5678_9abc_def0,
            overrun: 0,
        }
    }

    pub fn mode(&self) -> Mode {
        self.mode
    }

    /// Number of choices requested beyond the end of the tape (they decoded as 0).
    pub fn overrun(&self) -> usize {
        self.overrun
    }

    pub fn consumed(&self) -> usize {
        self.pos.min(self.data.len())
    }

    pub fn digest(&self) -> u64 {
        self.digest
    }

    fn next_raw(&mut self) -> u32 {
        let v = if self.pos < self.data.len() {
            self.data[self.pos]
        } else {
            self.overrun += 1;
            0
        };
        self.pos += 1;
        v
    }

    /// A choice among `n` alternatives, `0..n`. `n == 0` is treated as 1.
    pub fn below(&mut self, n: usize) -> usize {
        let n = n.max(1);
        let v = self.next_raw();
        let r = match self.mode {
            Mode::Scaled => ((v as u64 * n as u64) >> 32) as usize,
            Mode::Direct => (v as usize).min(n - 1),
            Mode::Bytes => {
                let width = if n <= 256 {
                    1
                } else if n <= 65_536 {
                    2
                } else {
                    4
                };
                let mut x = (v & 0xff) as u64;
                for _ in 1..width {
                    x = (x << 8) | (self.next_raw() & 0xff) as u64;
                }
                ((x * n as u64) >> (8 * width)) as usize
            }
        };
        self.digest = mix(self.digest, ((n as u64) << 32) ^ r as u64);
        r
    }

    /// Inclusive range.
    pub fn range(&mut self, lo: usize, hi: usize) -> usize {
        debug_assert!(hi >= lo);
        lo + self.below(hi - lo + 1)
    }

    pub fn bool(&mut self) -> bool {
        self.below(2) == 1
    }

    /// True with probability `pct` percent; the all-zero tape says false.
    pub fn chance(&mut self, pct: usize) -> bool {
        match self.mode {
            Mode::Scaled | Mode::Bytes => self.below(100) >= 100 - pct.min(100),
            Mode::Direct => self.below(2) == 1,
        }
    }

    pub fn pick<'b, T>(&mut self, items: &'b [T]) -> &'b T {
        &items[self.below(items.len())]
    }

    /// Index chosen with the given weights (alternative 0 first).
    pub fn weighted(&mut self, weights: &[u32]) -> usize {
        if self.mode == Mode::Direct {
            return self.below(weights.len());
        }
        let total: u32 = weights.iter().sum();
        let mut x = self.below(total as usize) as u32;
        for (i, w) in weights.iter().enumerate() {
            if x < *w {
                return i;
            }
            x -= *w;
        }
        weights.len() - 1
    }

    /// A length that is usually small: 0..=max with a bias towards short values.
    pub fn small_len(&mut self, max: usize) -> usize {
        if max == 0 {
            return self.below(1);
        }
        match self.weighted(&[6, 3, 1]) {
            0 => self.range(0, max.min(4)),
            1 => self.range(0, max.min(16)),
            _ => self.range(0, max),
        }
    }

    pub fn string_from(&mut self, alphabet: &[u8], len: usize) -> Vec<u8> {
        (0..len).map(|_| *self.pick(alphabet)).collect()
    }
}
