//! hootverif — property-based checks for ureq-proto (algesten/hoot), properties C01..C20.
pub mod drive;
pub mod infra;
pub mod model;
#[cfg(feature = "pbt")]
pub mod props;
