//! Driving a flow from Prepare to the Redirect state (one complete exchange answered by a 3xx).

use ureq_proto::client::flow::state::{Prepare, RecvResponse, Redirect, SendBody, SendRequest};
use ureq_proto::client::flow::{Await100Result, Flow, RecvBodyResult, RecvResponseResult, SendRequestResult};

use super::sender::pattern;

pub enum AfterHead {
    SendBody(Flow<(), SendBody>),
    RecvResponse(Flow<(), RecvResponse>),
}

/// Write the whole head with an ample buffer; returns the head bytes and the flow (still in SendRequest).
pub fn write_head_ample(f: &mut Flow<(), SendRequest>) -> Result<Vec<u8>, String> {
    let mut out = vec![0u8; 1 << 18];
    let mut head = Vec::new();
    for _ in 0..200 {
        if f.can_proceed() {
            break;
        }
        let n = f.write(&mut out).map_err(|e| format!("head write: {:?}", e))?;
        head.extend_from_slice(&out[..n]);
    }
    if !f.can_proceed() {
        return Err("head incomplete after ample writes".into());
    }
    Ok(head)
}

/// Offer `out` until the head is complete (a call need not emit every line that would fit); returns the bytes written.
pub fn write_head_until_ready(f: &mut Flow<(), SendRequest>, out: &mut [u8]) -> Result<Vec<u8>, ureq_proto::Error> {
    let mut head = Vec::new();
    for _ in 0..200 {
        if f.can_proceed() {
            break;
        }
        let n = f.write(out)?;
        head.extend_from_slice(&out[..n]);
        if n == 0 {
            break;
        }
    }
    Ok(head)
}

/// Advance out of SendRequest; an Await100 state is left immediately (as after a timeout).
pub fn after_head(f: Flow<(), SendRequest>) -> Result<AfterHead, String> {
    match f.proceed().map_err(|e| format!("SendRequest::proceed: {:?}", e))? {
        None => Err("SendRequest::proceed returned None although can_proceed() was true".into()),
        Some(SendRequestResult::RecvResponse(r)) => Ok(AfterHead::RecvResponse(r)),
        Some(SendRequestResult::SendBody(b)) => Ok(AfterHead::SendBody(b)),
        Some(SendRequestResult::Await100(a)) => match a.proceed().map_err(|e| format!("Await100::proceed: {:?}", e))? {
            Await100Result::SendBody(b) => Ok(AfterHead::SendBody(b)),
            Await100Result::RecvResponse(r) => Ok(AfterHead::RecvResponse(r)),
        },
    }
}

/// Send `len` pattern bytes (all of the declared length when sized) and finish. Returns the raw bytes emitted.
pub fn send_body(b: &mut Flow<(), SendBody>, len: usize) -> Result<Vec<u8>, String> {
    let mut out = vec![0u8; len + 64];
    let mut wire = Vec::new();
    let mut rest = &pattern()[..len];
    let mut guard = 0;
    while !rest.is_empty() {
        let (i, o) = b.write(rest, &mut out).map_err(|e| format!("body write: {:?}", e))?;
        wire.extend_from_slice(&out[..o]);
        rest = &rest[i..];
        guard += 1;
        if guard > 64 || (i == 0 && o == 0) {
            return Err("body write makes no progress".into());
        }
    }
    if !b.can_proceed() {
        let (_, o) = b.write(&[], &mut out).map_err(|e| format!("finishing write: {:?}", e))?;
        wire.extend_from_slice(&out[..o]);
    }
    if !b.can_proceed() {
        return Err("body not finished after the finishing write".into());
    }
    Ok(wire)
}

pub enum Terminal {
    Redirect(Flow<(), Redirect>),
    Cleanup(Flow<(), ureq_proto::client::flow::state::Cleanup>),
}

/// Feed a complete response (head + body bytes) and land in Redirect or Cleanup.
pub fn receive(mut r: Flow<(), RecvResponse>, head: &[u8], body: &[u8]) -> Result<Terminal, String> {
    match r.try_response(head) {
        Ok((n, Some(_))) if n == head.len() => {}
        other => return Err(format!("response head not accepted: {:?}", other.map(|o| (o.0, o.1.is_some())))),
    }
    match r.proceed().ok_or("cannot proceed after the response head")? {
        RecvResponseResult::Redirect(x) => Ok(Terminal::Redirect(x)),
        RecvResponseResult::Cleanup(x) => Ok(Terminal::Cleanup(x)),
        RecvResponseResult::RecvBody(mut b) => {
            let mut out = vec![0u8; body.len() + 16];
            let mut off = 0;
            let mut guard = 0;
            while !b.can_proceed() {
                let (i, _o) = b.read(&body[off..], &mut out).map_err(|e| format!("body read: {:?}", e))?;
                off += i;
                guard += 1;
                if guard > 16 {
                    return Err("response body does not complete".into());
                }
            }
            match b.proceed().ok_or("cannot proceed after the response body")? {
                RecvBodyResult::Redirect(x) => Ok(Terminal::Redirect(x)),
                RecvBodyResult::Cleanup(x) => Ok(Terminal::Cleanup(x)),
            }
        }
    }
}

/// One whole exchange from Prepare: returns (request head bytes, request body wire bytes, terminal state).
pub fn exchange(f: Flow<(), Prepare>, body_len: usize, resp_head: &[u8], resp_body: &[u8]) -> Result<(Vec<u8>, Vec<u8>, Terminal), String> {
    let mut sr = f.proceed();
    let head = write_head_ample(&mut sr)?;
    let (wire, rr) = match after_head(sr)? {
        AfterHead::RecvResponse(r) => (vec![], r),
        AfterHead::SendBody(mut b) => {
            let w = send_body(&mut b, body_len)?;
            (w, b.proceed().ok_or("SendBody::proceed returned None after the body was finished")?)
        }
    };
    let t = receive(rr, resp_head, resp_body)?;
    Ok((head, wire, t))
}
