//! The exchange driver: one request/response exchange through `Flow`, every size taken from a schedule.
//!
//! Used by C01 (schedule independence), C09 (state graph / readiness), C10 (verdict) and C11.

use ureq_proto::client::flow::state::{Cleanup, Prepare, Redirect};
use ureq_proto::client::flow::{Await100Result, Flow, RecvBodyResult, RecvResponseResult, SendRequestResult};
use ureq_proto::http::{Method, Request, Version};
use ureq_proto::{BodyMode, Error};

use crate::drive::recv::needs_body;
use crate::infra::tape::Tape;
use crate::model::chunk::StrictDechunk;
use crate::model::head::RespHead;
use crate::model::framing::{framing_table, ClClass, Expect as FrExpect, Framing};

#[derive(Clone, Copy, Debug, PartialEq, Eq)]
pub enum ReqConn {
    Absent,
    Close,
    KeepAlive,
    KeepAliveThenClose,
}

#[derive(Clone, Copy, Debug, PartialEq, Eq)]
pub enum ReqFraming {
    Auto,
    Cl,
    Te,
}

#[derive(Clone, Copy, Debug, PartialEq, Eq)]
pub enum AwaitMode {
    /// read from the socket until the handshake is decided (or nothing more arrives before the body)
    Look,
    /// never look: proceed at once, as after a timeout
    NeverLook,
}

#[derive(Clone, Debug, PartialEq, Eq)]
pub enum ServerPre {
    /// the server waits for the body
    Silent,
    /// the server sends this bare 100 response before the body
    Continue(Vec<u8>),
    /// the server answers with the final response without waiting for the body
    Refuse,
}

#[derive(Clone, Debug)]
pub struct RespSpec {
    pub head: RespHead,
    /// body bytes as on the wire (empty when the response has none)
    pub body_wire: Vec<u8>,
    /// what the reader must deliver
    pub payload: Vec<u8>,
    /// body extends to the end of the stream
    pub close_delimited: bool,
}

#[derive(Clone, Debug)]
pub struct ExchangeSpec {
    pub method: Method,
    pub req_v10: bool,
    pub uri: String,
    pub req_conn: ReqConn,
    pub expect: bool,
    pub despite: bool,
    pub req_framing: ReqFraming,
    pub extra_headers: Vec<(String, String)>,
    pub body: Vec<u8>,
    pub await_mode: AwaitMode,
    pub server_pre: ServerPre,
    pub resp: RespSpec,
    /// how the caller supplies the framing header and the ordinary extra headers: 0 on the original request; with
    /// `Flow::header()` 1 before / 2 after `send_body_despite_method()` (credentials, Connection and Expect stay on the
    /// original request: redirect suppression, the close verdict and the 100-continue handshake are defined on it)
    pub prep: u8,
}

impl ExchangeSpec {
    pub fn body_due(&self) -> bool {
        needs_body(&self.method) || self.despite
    }
    pub fn goes_await(&self) -> bool {
        self.body_due() && self.expect
    }
    /// the caller sees the refusal while awaiting 100
    pub fn refused(&self) -> bool {
        self.goes_await() && self.await_mode == AwaitMode::Look && self.server_pre == ServerPre::Refuse
    }
    pub fn body_sent(&self) -> bool {
        self.body_due() && !self.refused()
    }

    /// The server bytes of this exchange.
    pub fn stream(&self) -> Vec<u8> {
        let mut v = Vec::new();
        if let ServerPre::Continue(c) = &self.server_pre {
            v.extend_from_slice(c);
        }
        v.extend_from_slice(&self.resp.head.bytes());
        v.extend_from_slice(&self.resp.body_wire);
        v
    }

    /// How many bytes of `stream()` exist before the request body has been sent.
    pub fn early_len(&self) -> usize {
        match &self.server_pre {
            ServerPre::Silent => 0,
            ServerPre::Continue(c) => c.len(),
            ServerPre::Refuse => self.stream().len(),
        }
    }

    pub fn interim_len(&self) -> usize {
        match &self.server_pre {
            ServerPre::Continue(c) => c.len(),
            _ => 0,
        }
    }

    pub fn request(&self) -> Result<Request<()>, String> {
        let mut b = Request::builder()
            .method(self.method.clone())
            .uri(self.uri.as_str())
            .version(if self.req_v10 { Version::HTTP_10 } else { Version::HTTP_11 });
        for (k, v) in &self.extra_headers {
            if self.prep == 0 || !k.starts_with("x-h") {
                b = b.header(k.as_str(), v.as_str());
            }
        }
        match self.req_conn {
            ReqConn::Absent => {}
            ReqConn::Close => b = b.header("connection", "close"),
            ReqConn::KeepAlive => b = b.header("connection", "keep-alive"),
            ReqConn::KeepAliveThenClose => b = b.header("connection", "keep-alive").header("Connection", "close"),
        }
        if self.expect {
            b = b.header("expect", "100-continue");
        }
        if self.body_due() && self.prep == 0 {
            match self.req_framing {
                ReqFraming::Auto => {}
                ReqFraming::Cl => b = b.header("content-length", self.body.len().to_string()),
                ReqFraming::Te => b = b.header("transfer-encoding", "chunked"),
            }
        }
        b.body(()).map_err(|e| e.to_string())
    }

    /// Headers the caller adds with `Flow::header()` when `prep != 0`.
    pub fn flow_headers(&self) -> Vec<(String, String)> {
        let mut v = vec![];
        if self.prep == 0 {
            return v;
        }
        if self.body_due() {
            match self.req_framing {
                ReqFraming::Auto => {}
                ReqFraming::Cl => v.push(("content-length".to_string(), self.body.len().to_string())),
                ReqFraming::Te => v.push(("Transfer-Encoding".to_string(), "chunked".to_string())),
            }
        }
        for (k, val) in &self.extra_headers {
            if k.starts_with("x-h") {
                v.push((k.clone(), val.clone()));
            }
        }
        v
    }

    /// Framing of the response per the C06 model.
    pub fn expected_framing(&self) -> Framing {
        let h = &self.resp.head;
        let cl = match h.get("content-length") {
            None => ClClass::Absent,
            Some(f) => match String::from_utf8_lossy(&f.value).parse::<u64>() {
                Ok(n) => ClClass::Num(n),
                Err(_) => ClClass::Bad,
            },
        };
        let te = h.get("transfer-encoding");
        let te_chunked = te
            .map(|f| String::from_utf8_lossy(&f.value).split(',').any(|t| t.trim().eq_ignore_ascii_case("chunked")))
            .unwrap_or(false);
        match framing_table(&self.method, h.status, h.v11, cl, te.is_some(), te_chunked) {
            FrExpect::Is(f) => f,
            other => panic!("generator produced a response outside the decided part of the framing table: {:?}", other),
        }
    }

    pub fn expect_body_state(&self) -> bool {
        !matches!(self.expected_framing(), Framing::None | Framing::Length(0))
    }

    pub fn expect_redirect(&self) -> bool {
        let s = self.resp.head.status;
        (300..400).contains(&s) && s != 304
    }

    /// The five close conditions of C10, evaluated on the specification.
    pub fn close_conditions(&self) -> [bool; 5] {
        let resp_close = self.resp.head.fields.iter().any(|f| f.lname() == "connection" && f.value == b"close");
        [
            self.req_v10,
            matches!(self.req_conn, ReqConn::Close | ReqConn::KeepAliveThenClose),
            resp_close,
            self.refused(),
            self.expected_framing() == Framing::Close,
        ]
    }
}

// ---------------------------------------------------------------------------------------------
// schedule

pub struct Sched<'a, 'b> {
    tape: Option<&'a mut Tape<'b>>,
    /// consecutive steps without progress; from 4 on the schedule answers canonically until progress
    pub idle: u32,
    pub forced: u64,
    pub splits: [u32; 4], // calls used for: request head, request body, response head, response body
    pub queries: u64,
    pub premature_budget: u32,
    pub k1_moved: u64,
    /// issue every read-only query at every opportunity (used with the canonical schedule)
    pub always_query: bool,
    /// arrival style for the whole exchange: 0 mixed, 1 always one byte, 2 always `arrive_k` bytes, 3 everything at once
    pub arrive_style: u8,
    pub arrive_k: usize,
    /// buffer style: 0 mixed, 1 always `buf_k` bytes (tiny), 2 ample
    pub buf_style: u8,
    pub buf_k: usize,
}

impl<'a, 'b> Sched<'a, 'b> {
    pub fn canonical() -> Sched<'static, 'static> {
        Sched { tape: None, idle: 0, forced: 0, splits: [0; 4], queries: 0, premature_budget: 0, k1_moved: 0, always_query: false, arrive_style: 0, arrive_k: 1, buf_style: 0, buf_k: 1 }
    }
    pub fn from_tape(t: &'a mut Tape<'b>) -> Self {
        // a persistent style per run: mixed choices rarely produce a long trickle or a whole body through a tiny buffer
        let arrive_style = t.weighted(&[5, 2, 2, 1]) as u8;
        let arrive_k = t.range(2, 7);
        let buf_style = t.weighted(&[6, 2, 1]) as u8;
        let buf_k = t.range(1, 9);
        Sched { tape: Some(t), idle: 0, forced: 0, splits: [0; 4], queries: 0, premature_budget: 0, k1_moved: 0, always_query: false, arrive_style, arrive_k, buf_style, buf_k }
    }
    /// whether to interleave the read-only queries here
    pub fn query(&mut self, pct: usize) -> bool {
        if self.always_query {
            return true;
        }
        self.flag(pct)
    }
    fn live(&mut self) -> Option<&mut Tape<'b>> {
        if self.idle >= 4 {
            self.forced += 1;
            return None;
        }
        match &mut self.tape {
            Some(t) => Some(&mut **t),
            None => None,
        }
    }
    pub fn progress(&mut self, made: bool) {
        if made {
            self.idle = 0;
        } else {
            self.idle += 1;
        }
    }
    pub fn head_buf(&mut self) -> usize {
        match self.live() {
            None => 1 << 16,
            Some(t) => match t.weighted(&[3, 3, 3, 2]) {
                0 => 1 << 16,
                1 => t.below(13),
                2 => t.range(13, 120),
                _ => t.range(120, 600),
            },
        }
    }
    pub fn body_in(&mut self, remaining: usize) -> usize {
        if remaining == 0 {
            return 0;
        }
        match self.live() {
            None => remaining,
            Some(t) => match t.weighted(&[3, 3, 2, 1]) {
                0 => remaining,
                1 => t.range(1, remaining.min(16)),
                2 => t.range(1, remaining),
                _ => remaining.min(10_241),
            },
        }
    }
    pub fn body_out(&mut self, offered: usize) -> usize {
        let ample = offered + offered / 500 + 64;
        let (style, k) = (self.buf_style, self.buf_k);
        match self.live() {
            None => ample,
            Some(_) if style == 1 => k + 5,
            Some(t) if style == 2 => {
                // exact fits around the offered size: hex-digit boundaries show here
                let digits = format!("{:x}", offered.max(1)).len();
                offered + digits + 4 + t.below(3)
            }
            Some(t) => match t.weighted(&[3, 3, 2, 2, 1, 1]) {
                0 => ample,
                1 => t.below(13),
                2 => offered + t.below(9),
                3 => t.range(0, offered.max(1)),
                4 => (10_248 + t.below(12)).saturating_sub(4),
                _ => t.range(13, 200),
            },
        }
    }
    /// how many of the `available` not yet arrived bytes arrive now
    pub fn arrive(&mut self, available: usize) -> usize {
        if available == 0 {
            return 0;
        }
        let (style, k) = (self.arrive_style, self.arrive_k);
        match self.live() {
            None => available,
            Some(_) if style == 1 => 1,
            Some(_) if style == 2 => k.min(available),
            Some(_) if style == 3 => available,
            Some(t) => match t.weighted(&[3, 3, 1, 2, 1]) {
                0 => available,
                1 => 1,
                2 => 0,
                3 => t.range(1, available.min(40)),
                _ => t.range(1, available),
            },
        }
    }
    pub fn read_out(&mut self, window: usize) -> usize {
        let (style, k) = (self.buf_style, self.buf_k);
        match self.live() {
            None => window + 64,
            Some(_) if style == 1 => k,
            Some(_) if style == 2 => window + 64,
            Some(t) => match t.weighted(&[3, 3, 2, 1]) {
                0 => window + 64,
                1 => t.range(0, 8),
                2 => t.range(1, window.max(1) + 8),
                _ => 0,
            },
        }
    }
    pub fn flag(&mut self, pct: usize) -> bool {
        match self.live() {
            None => false,
            Some(t) => t.chance(pct),
        }
    }
    pub fn small(&mut self, n: usize) -> usize {
        match self.live() {
            None => 0,
            Some(t) => t.below(n),
        }
    }
    pub fn is_canonical(&self) -> bool {
        self.tape.is_none()
    }
}

// ---------------------------------------------------------------------------------------------
// observation

#[derive(Clone, Debug, PartialEq, Eq)]
pub enum TerminalKind {
    Redirect(u16),
    Cleanup,
}

#[derive(Clone, Debug, PartialEq, Eq)]
pub struct Obs {
    pub req_head: Vec<u8>,
    /// request body as decoded from the wire (chunked or raw); None when no body was sent
    pub req_payload: Option<Vec<u8>>,
    pub req_chunked: bool,
    pub late_100_skipped: u32,
    pub resp_version_11: bool,
    pub resp_status: u16,
    /// (lower-case name, value) sorted by name, values of one name in order
    pub resp_fields: Vec<(String, Vec<u8>)>,
    pub resp_body: Vec<u8>,
    pub body_state_entered: bool,
    pub body_mode: Option<String>,
    pub terminal: TerminalKind,
    pub must_close: bool,
    pub reason: Option<&'static str>,
    /// server bytes consumed by this exchange
    pub consumed: usize,
    pub path: Vec<&'static str>,
}

pub enum Terminal {
    Redirect(Flow<(), Redirect>),
    Cleanup(Flow<(), Cleanup>),
}

pub enum Outcome {
    Done(Obs, Terminal),
    /// a premature advance attempt (correctly) ended the history
    Premature(&'static str),
    /// The exchange left the specified course at a point the statements leave open; nothing further is compared. Two cases:
    /// a followed flow whose request went out without the `Expect` header of the previous request (which request-specific
    /// headers other than the listed ones travel with a redirect is not stated, DESIGN 5.3); a `Content-Length: 0` request with
    /// `Expect: 100-continue` whose flow has no body state and therefore never awaits (whether a body of zero bytes is "due" is
    /// not stated).
    NotCompared(&'static str),
}

fn v(s: impl Into<String>) -> String {
    s.into()
}

/// Drive one exchange. `stream` holds the server bytes from the first byte of this exchange's
/// response(s) to the end of the connection; `stream_is_last` tells whether the stream end is a
/// connection close (needed for close-delimited bodies).
pub fn run_exchange(spec: &ExchangeSpec, start: Option<Flow<(), Prepare>>, stream: &[u8], s: &mut Sched) -> Result<Outcome, String> {
    let mut path: Vec<&'static str> = vec!["Prepare"];
    let followed = start.is_some();
    let mut f = match start {
        Some(f) => f,
        None => Flow::new(spec.request()?).map_err(|e| format!("Flow::new: {:?}", e))?,
    };
    if s.query(30) {
        s.queries += 1;
        if f.method() != spec.method {
            return Err(v("Prepare::method() differs from the request"));
        }
        let _ = f.uri();
        let _ = f.version();
        let _ = f.headers();
    }
    // a flow handed in (`start`: a followed redirect) is prepared the same way: the caller may add headers to it too
    if spec.prep == 1 {
        for (k, val) in spec.flow_headers() {
            f.header(k.as_str(), val.as_str()).map_err(|e| format!("Flow::header: {:?}", e))?;
        }
    }
    if spec.despite {
        f.send_body_despite_method();
    }
    if spec.prep == 2 {
        for (k, val) in spec.flow_headers() {
            f.header(k.as_str(), val.as_str()).map_err(|e| format!("Flow::header: {:?}", e))?;
        }
    }
    let early = spec.early_len();
    let resp_head_bytes = spec.resp.head.bytes();
    let interim = spec.interim_len();
    let head_start = interim;
    let head_end = interim + resp_head_bytes.len();
    let body_end = head_end + spec.resp.body_wire.len();
    if stream.len() < body_end {
        return Err(v("harness: stream shorter than the exchange"));
    }

    // ------------------------------------------------------------------ SendRequest
    path.push("SendRequest");
    let mut sr = f.proceed();
    let mut req_head: Vec<u8> = Vec::new();
    let mut buf: Vec<u8> = vec![0; 1 << 16];
    let mut guard = 0u32;
    loop {
        let complete = req_head.ends_with(b"\r\n\r\n");
        if s.query(20) {
            s.queries += 1;
            if sr.can_proceed() != complete {
                return Err(format!("SendRequest::can_proceed() = {} with the head {}", sr.can_proceed(), if complete { "complete" } else { "incomplete" }));
            }
            let _ = sr.method();
            let _ = sr.uri();
            let _ = sr.version();
            if s.query(30) {
                let _ = sr.headers_map().map_err(|e| format!("headers_map: {:?}", e))?;
            }
        }
        if s.premature_budget > 0 && !complete && s.flag(10) {
            s.premature_budget -= 1;
            let can = sr.can_proceed();
            // "not advanced" may be told as `Ok(None)` or as an error: the statement only ties success to the readiness query
            let advanced = matches!(sr.proceed(), Ok(Some(_)));
            if can || advanced {
                return Err(format!("SendRequest: advancing succeeded = {}, can_proceed() = {} with an incomplete head", advanced, can));
            }
            return Ok(Outcome::Premature("SendRequest"));
        }
        if complete {
            break;
        }
        guard += 1;
        if guard > 4_000 {
            return Err(v("request head does not complete"));
        }
        let b = s.head_buf();
        s.splits[0] += 1;
        match sr.write(&mut buf[..b]) {
            Ok(n) => {
                if n > b {
                    return Err(format!("head write reported {} bytes for a {}-byte buffer", n, b));
                }
                req_head.extend_from_slice(&buf[..n]);
                s.progress(n > 0);
            }
            Err(Error::OutputOverflow) => s.progress(false),
            Err(e) => return Err(format!("head write failed: {:?}", e)),
        }
    }
    if !sr.can_proceed() {
        return Err(v("complete head on the wire but SendRequest::can_proceed() is false"));
    }
    if s.query(10) {
        // a further write once the head is complete is permitted and must be a no-op
        s.queries += 1;
        match sr.write(&mut buf[..256]) {
            Ok(0) => {}
            Ok(n) => return Err(format!("SendRequest::write after the head was complete emitted {} bytes", n)),
            Err(e) => return Err(format!("SendRequest::write after the head was complete failed: {:?}", e)),
        }
        if !sr.can_proceed() {
            return Err(v("an extra write made SendRequest not ready"));
        }
    }
    let next = sr.proceed().map_err(|e| format!("SendRequest::proceed: {:?}", e))?.ok_or("SendRequest::proceed returned None although can_proceed() was true")?;
    if followed && spec.expect {
        let on_wire = crate::model::head::parse_request_head(&req_head).map(|h| h.values("expect").iter().any(|x| x.eq_ignore_ascii_case(b"100-continue"))).unwrap_or(true);
        if !on_wire {
            if matches!(next, SendRequestResult::Await100(_)) {
                return Err(v("Await100 entered although the request on the wire carries no Expect: 100-continue"));
            }
            return Ok(Outcome::NotCompared("followed_request_without_the_inherited_expect"));
        }
    }

    // ------------------------------------------------------------------ Await100 / SendBody
    let mut consumed = 0usize; // offset into `stream`
    let mut req_wire: Vec<u8> = Vec::new();
    let mut body_sent = false;
    let mut zero_len_skipped = false;
    let mut rr = match next {
        SendRequestResult::RecvResponse(r) => {
            if spec.body_due() {
                // a body of zero bytes (Content-Length: 0): a flow without a body state for it is as good as one whose body state
                // is finished by the end signal
                if !(spec.req_framing == ReqFraming::Cl && spec.body.is_empty()) {
                    return Err(v("a body is due but SendRequest advanced to RecvResponse"));
                }
                if spec.goes_await() {
                    return Ok(Outcome::NotCompared("zero_length_body_with_expect_has_no_body_state"));
                }
                zero_len_skipped = true;
            }
            r
        }
        other => {
            if !spec.body_due() {
                return Err(v("no body is due but SendRequest advanced to a body state"));
            }
            let sb = match other {
                SendRequestResult::Await100(mut a) => {
                    if !spec.expect {
                        return Err(v("Await100 entered without Expect: 100-continue"));
                    }
                    path.push("Await100");
                    if spec.await_mode == AwaitMode::Look {
                        // only bytes the server sends before the body exist now
                        let mut arrived = 0usize;
                        let mut tries = 0;
                        while a.can_keep_await_100() && tries < 400 {
                            tries += 1;
                            let inc = s.arrive(early - arrived);
                            arrived += inc;
                            s.splits[2] += 1;
                            let n = a.try_read_100(&stream[consumed..arrived]).map_err(|e| format!("try_read_100 on {} bytes: {:?}", arrived - consumed, e))?;
                            if n > arrived - consumed {
                                return Err(v("try_read_100 consumed more than offered"));
                            }
                            consumed += n;
                            s.progress(inc > 0 || n > 0);
                            if arrived == early && a.can_keep_await_100() && n == 0 {
                                // nothing more will arrive before the body: give up waiting
                                break;
                            }
                        }
                    }
                    if s.query(20) {
                        s.queries += 1;
                        let _ = a.can_keep_await_100();
                    }
                    match a.proceed().map_err(|e| format!("Await100::proceed: {:?}", e))? {
                        Await100Result::SendBody(b) => {
                            if spec.refused() {
                                return Err(v("the server refused (non-100 response while awaiting) but the flow asks for the body"));
                            }
                            Some(b)
                        }
                        Await100Result::RecvResponse(r) => {
                            if !spec.refused() {
                                return Err(v("Await100 advanced to RecvResponse although the server did not refuse"));
                            }
                            if consumed != 0 {
                                return Err(format!("refusal consumed {} bytes while awaiting 100", consumed));
                            }
                            path.push("RecvResponse");
                            return finish_response(spec, r, stream, consumed, req_head, None, false, path, s, head_start, head_end, body_end);
                        }
                    }
                }
                SendRequestResult::SendBody(b) => {
                    if spec.expect {
                        return Err(v("Expect: 100-continue requested but Await100 was skipped"));
                    }
                    Some(b)
                }
                SendRequestResult::RecvResponse(_) => unreachable!(),
            };
            let mut sb = sb.unwrap();
            path.push("SendBody");
            body_sent = true;
            let chunked = sb.is_chunked();
            let want_chunked = spec.req_framing != ReqFraming::Cl;
            if chunked != want_chunked {
                return Err(format!("is_chunked() = {} but the request framing is {:?}", chunked, spec.req_framing));
            }
            let mut rest: &[u8] = &spec.body;
            let mut guard = 0u32;
            loop {
                if s.query(15) {
                    s.queries += 1;
                    let k = s.small(3000);
                    let m = sb.calculate_max_input(k);
                    if m > k {
                        return Err(format!("calculate_max_input({}) = {}", k, m));
                    }
                    if sb.is_chunked() != chunked {
                        return Err(v("is_chunked() changed"));
                    }
                    let _ = sb.can_proceed();
                }
                let fin = sb.can_proceed();
                if s.premature_budget > 0 && !fin && s.flag(10) {
                    s.premature_budget -= 1;
                    if sb.proceed().is_some() {
                        return Err(v("SendBody: advancing succeeded although can_proceed() was false"));
                    }
                    return Ok(Outcome::Premature("SendBody"));
                }
                if fin {
                    if !rest.is_empty() {
                        return Err(format!("body reported finished with {} payload bytes unsent", rest.len()));
                    }
                    break;
                }
                guard += 1;
                if guard > 200_000 {
                    return Err(v("request body does not complete"));
                }
                let take = s.body_in(rest.len());
                s.splits[1] += 1;
                if !chunked && s.flag(15) {
                    // the caller transmits these bytes itself and reports them (a report of 0 bytes is the end signal of an
                    // empty remainder, exactly like an empty write)
                    sb.consume_direct_write(take).map_err(|e| format!("consume_direct_write({}): {:?}", take, e))?;
                    req_wire.extend_from_slice(&rest[..take]);
                    rest = &rest[take..];
                    if rest.is_empty() && !sb.can_proceed() {
                        // a report is bookkeeping; if it does not end the body by itself, the documented end signal (an empty
                        // write, which needs no output space) must
                        match sb.write(&[], &mut []) {
                            Ok((0, 0)) => {}
                            other => return Err(format!("end signal after direct-write reports covering all {} body bytes returned {:?}", spec.body.len(), other)),
                        }
                        if !sb.can_proceed() {
                            return Err(format!("all {} body bytes accounted for by direct-write reports and the end signalled, but the body is not reported finished", spec.body.len()));
                        }
                    }
                    s.progress(true);
                    continue;
                }
                let ob = s.body_out(take);
                if buf.len() < ob {
                    buf.resize(ob, 0);
                }
                let (i, o) = match sb.write(&rest[..take], &mut buf[..ob]) {
                    Ok(v) => v,
                    // a chunked write into less than the smallest chunk (6 bytes) cannot make progress; whether that is told as
                    // (0, 0) or as an output-overflow error is not stated (C19 starts at 6 bytes): no progress either way
                    Err(ureq_proto::Error::OutputOverflow) if chunked && take > 0 && ob < 6 => (0, 0),
                    Err(e) => return Err(format!("body write(in = {}, out = {}): {:?}", take, ob, e)),
                };
                if i > take || o > ob {
                    return Err(format!("body write counts out of range: ({}, {}) for (in = {}, out = {})", i, o, take, ob));
                }
                req_wire.extend_from_slice(&buf[..o]);
                rest = &rest[i..];
                s.progress(i > 0 || o > 0);
            }
            path.push("RecvResponse");
            sb.proceed().ok_or("SendBody::proceed returned None although can_proceed() was true")?
        }
    };
    if !body_sent {
        path.push("RecvResponse");
    }
    if s.query(10) {
        s.queries += 1;
        if rr.can_proceed() {
            return Err(v("RecvResponse::can_proceed() true before any response"));
        }
    }
    let payload = if body_sent {
        if spec.req_framing != ReqFraming::Cl {
            let mut d = StrictDechunk::new();
            d.feed(&req_wire).map_err(|e| format!("request body on the wire is not valid chunked coding: {}", e))?;
            if !d.terminated {
                return Err(v("request body on the wire lacks the terminating chunk"));
            }
            Some(d.data)
        } else {
            Some(req_wire.clone())
        }
    } else if zero_len_skipped {
        Some(vec![])
    } else {
        None
    };
    let chunked = body_sent && spec.req_framing != ReqFraming::Cl;
    let _ = &mut rr;
    finish_response(spec, rr, stream, consumed, req_head, payload, chunked, path, s, head_start, head_end, body_end)
}

#[allow(clippy::too_many_arguments)]
pub fn finish_response(
    spec: &ExchangeSpec,
    mut rr: Flow<(), ureq_proto::client::flow::state::RecvResponse>,
    stream: &[u8],
    mut consumed: usize,
    req_head: Vec<u8>,
    req_payload: Option<Vec<u8>>,
    req_chunked: bool,
    mut path: Vec<&'static str>,
    s: &mut Sched,
    head_start: usize,
    head_end: usize,
    body_end: usize,
) -> Result<Outcome, String> {
    // K1 window: a 3xx head offered up to a cut at/after the end of a complete, non-empty Location line
    let k1_from: Option<usize> = {
        let h = &spec.resp.head;
        if (300..400).contains(&h.status) {
            let w = h.wire();
            h.fields
                .iter()
                .enumerate()
                .find(|(_, f)| f.lname() == "location" && !f.value.is_empty())
                .map(|(i, _)| head_start + w.line_ends[i + 1])
        } else {
            None
        }
    };
    let limit = if spec.resp.close_delimited { stream.len() } else { stream.len() };
    let mut arrived = consumed;
    let entry = consumed;
    let mut skipping_calls = 0u32;
    let mut guard = 0u32;
    let response = loop {
        guard += 1;
        if guard > 20_000 {
            return Err(v("response head is never returned"));
        }
        if s.premature_budget > 0 && s.flag(5) {
            s.premature_budget -= 1;
            let can = rr.can_proceed();
            let res = rr.proceed();
            if can || res.is_some() {
                return Err(format!("RecvResponse: advancing succeeded = {}, can_proceed() = {} before the response", res.is_some(), can));
            }
            return Ok(Outcome::Premature("RecvResponse"));
        }
        let inc = s.arrive(limit - arrived);
        arrived += inc;
        if let Some(k) = k1_from {
            if arrived >= k && arrived < head_end {
                // owned by C05 (known finding K1): move the cut to the end of the head
                s.k1_moved += 1;
                arrived = head_end;
            }
        }
        s.splits[2] += 1;
        let win = &stream[consumed..arrived];
        match rr.try_response(win) {
            Err(e) => return Err(format!("try_response on a {}-byte window of a well-formed response: {:?}", win.len(), e)),
            Ok((n, None)) => {
                if n > win.len() {
                    return Err(v("try_response consumed more than offered"));
                }
                if n > 0 {
                    skipping_calls += 1;
                    if skipping_calls > 1 {
                        return Err(v("more than one response skipped as a late 100"));
                    }
                }
                consumed += n;
                s.progress(inc > 0 || n > 0);
                if rr.can_proceed() {
                    return Err(v("RecvResponse::can_proceed() true without a response"));
                }
            }
            Ok((n, Some(r))) => {
                if n > win.len() {
                    return Err(v("try_response consumed more than offered"));
                }
                consumed += n;
                s.progress(true);
                break r;
            }
        }
    };
    // "skipped exactly once" is a statement about bytes, not about calls: whether the late 100 is consumed by a call of its own
    // (answering `None`) or by the call that also returns the real response is the library's business. What was consumed before
    // the head that came back, beyond the head itself, is the skipped interim response.
    let head_len = head_end - head_start;
    let before_head = (consumed - entry).saturating_sub(head_len);
    let interim_len = head_start - entry.min(head_start);
    let late: u32 = if before_head == 0 {
        0
    } else if interim_len > 0 && before_head == interim_len {
        1
    } else {
        return Err(format!("{} server bytes consumed before the response head that was returned ({} bytes long); an unconsumed interim response of {} bytes preceded it", before_head, head_len, interim_len));
    };
    if !rr.can_proceed() {
        return Err(v("response returned but RecvResponse::can_proceed() is false"));
    }
    let mut resp_fields: Vec<(String, Vec<u8>)> = Vec::new();
    let mut names: Vec<String> = response.headers().keys().map(|k| k.as_str().to_string()).collect();
    names.sort();
    for n in names {
        for val in response.headers().get_all(n.as_str()) {
            resp_fields.push((n.clone(), val.as_bytes().to_vec()));
        }
    }
    let resp_status = response.status().as_u16();
    let resp_version_11 = response.version() == Version::HTTP_11;

    let next = rr.proceed().ok_or("RecvResponse::proceed returned None although can_proceed() was true")?;
    let mut resp_body: Vec<u8> = Vec::new();
    let mut body_state_entered = false;
    let mut body_mode = None;
    let term = match next {
        RecvResponseResult::Redirect(r) => Terminal::Redirect(r),
        RecvResponseResult::Cleanup(c) => Terminal::Cleanup(c),
        RecvResponseResult::RecvBody(mut b) => {
            path.push("RecvBody");
            body_state_entered = true;
            let mode = b.body_mode();
            body_mode = Some(format!("{:?}", mode));
            let close = mode == BodyMode::CloseDelimited;
            let mut out: Vec<u8> = vec![0; 4096];
            let mut guard = 0u32;
            loop {
                if s.query(15) {
                    s.queries += 1;
                    let _ = b.can_proceed();
                    let _ = b.is_on_chunk_boundary();
                    let _ = b.body_mode();
                }
                if s.flag(15) {
                    let on = s.flag(50);
                    b.stop_on_chunk_boundary(on);
                }
                let done = if close { arrived == stream.len() && consumed == stream.len() } else { b.can_proceed() };
                if s.premature_budget > 0 && !close && !b.can_proceed() && s.flag(10) {
                    s.premature_budget -= 1;
                    if b.proceed().is_some() {
                        return Err(v("RecvBody: advancing succeeded although can_proceed() was false"));
                    }
                    return Ok(Outcome::Premature("RecvBody"));
                }
                if done {
                    break;
                }
                guard += 1;
                if guard > 400_000 {
                    return Err(v("response body does not complete"));
                }
                let inc = s.arrive(stream.len() - arrived);
                arrived += inc;
                let win = &stream[consumed..arrived];
                let osz = s.read_out(win.len());
                if out.len() < osz {
                    out.resize(osz, 0);
                }
                s.splits[3] += 1;
                let (i, o) = b.read(win, &mut out[..osz]).map_err(|e| format!("body read(window = {}, out = {}): {:?}", win.len(), osz, e))?;
                if i > win.len() || o > osz {
                    return Err(format!("body read counts out of range: ({}, {}) for (window = {}, out = {})", i, o, win.len(), osz));
                }
                consumed += i;
                resp_body.extend_from_slice(&out[..o]);
                s.progress(inc > 0 || i > 0 || o > 0);
            }
            if !b.can_proceed() {
                return Err(v("response body complete but RecvBody::can_proceed() is false"));
            }
            match b.proceed().ok_or("RecvBody::proceed returned None although can_proceed() was true")? {
                RecvBodyResult::Redirect(r) => Terminal::Redirect(r),
                RecvBodyResult::Cleanup(c) => Terminal::Cleanup(c),
            }
        }
    };
    let _ = body_end;
    let (terminal, must_close, reason, term) = match term {
        Terminal::Redirect(r) => {
            path.push("Redirect");
            let st = r.status().as_u16();
            let mc = r.must_close_connection();
            let reason = r.close_reason();
            (TerminalKind::Redirect(st), mc, reason, Terminal::Redirect(r))
        }
        Terminal::Cleanup(c) => {
            path.push("Cleanup");
            let mc = c.must_close_connection();
            let reason = c.close_reason();
            (TerminalKind::Cleanup, mc, reason, Terminal::Cleanup(c))
        }
    };
    Ok(Outcome::Done(
        Obs {
            req_head,
            req_payload,
            req_chunked,
            late_100_skipped: late,
            resp_version_11,
            resp_status,
            resp_fields,
            resp_body,
            body_state_entered,
            body_mode,
            terminal,
            must_close,
            reason,
            consumed,
            path,
        },
        term,
    ))
}

/// Ground-truth check of an observation against the specification (the absolute oracle).
pub fn check_against_truth(spec: &ExchangeSpec, o: &Obs, is_last: bool, stream_len: usize) -> Result<(), String> {
    // request
    let h = crate::model::head::parse_request_head(&o.req_head).map_err(|e| format!("request head invalid: {}", e))?;
    if h.method != spec.method.as_str() {
        return Err(format!("request method {} on the wire, {} requested", h.method, spec.method));
    }
    if h.version != if spec.req_v10 { "HTTP/1.0" } else { "HTTP/1.1" } {
        return Err(format!("request version {} on the wire", h.version));
    }
    match (&o.req_payload, spec.body_sent()) {
        (Some(p), true) => {
            if p[..] != spec.body[..] {
                return Err(format!("request body payload on the wire ({} bytes) differs from the body ({} bytes)", p.len(), spec.body.len()));
            }
        }
        (None, false) => {}
        (Some(_), false) => return Err(v("a request body was sent although none was due / the server refused")),
        (None, true) => return Err(v("no request body was sent although one was due")),
    }
    // response
    let rh = &spec.resp.head;
    if o.resp_status != rh.status || o.resp_version_11 != rh.v11 {
        return Err(format!("response {} / 1.{} observed, {} / 1.{} sent", o.resp_status, o.resp_version_11 as u8, rh.status, rh.v11 as u8));
    }
    let mut want: Vec<(String, Vec<u8>)> = rh.fields.iter().map(|f| (f.lname(), f.value.clone())).collect();
    want.sort_by(|a, b| a.0.cmp(&b.0)); // stable: values of one name keep their order
    if want != o.resp_fields {
        return Err(format!("response fields observed {:?} differ from those sent {:?}", o.resp_fields.iter().map(|(k, v)| format!("{}: {}", k, String::from_utf8_lossy(v))).collect::<Vec<_>>(), want.iter().map(|(k, v)| format!("{}: {}", k, String::from_utf8_lossy(v))).collect::<Vec<_>>()));
    }
    let expected_late = match (&spec.server_pre, spec.goes_await(), spec.await_mode) {
        (ServerPre::Continue(_), true, AwaitMode::Look) => 0,
        (ServerPre::Continue(_), _, _) => 1,
        _ => 0,
    };
    if o.late_100_skipped != expected_late {
        return Err(format!("{} late 100 responses skipped, expected {}", o.late_100_skipped, expected_late));
    }
    if o.body_state_entered != spec.expect_body_state() {
        return Err(format!("body state entered = {}, expected framing {:?}", o.body_state_entered, spec.expected_framing()));
    }
    if o.resp_body[..] != spec.resp.payload[..] {
        return Err(format!("response body delivered ({} bytes) differs from the payload ({} bytes)", o.resp_body.len(), spec.resp.payload.len()));
    }
    let want_term = if spec.expect_redirect() { TerminalKind::Redirect(rh.status) } else { TerminalKind::Cleanup };
    if o.terminal != want_term {
        return Err(format!("terminal state {:?}, expected {:?}", o.terminal, want_term));
    }
    let conds = spec.close_conditions();
    let want_close = conds.iter().any(|c| *c);
    if o.must_close != want_close {
        return Err(format!("must_close_connection() = {}, close conditions [http1.0, client close, server close, not-100, close-delimited] = {:?}", o.must_close, conds));
    }
    if o.reason.is_some() != o.must_close {
        return Err(format!("close_reason() = {:?} with must_close_connection() = {}", o.reason, o.must_close));
    }
    let want_consumed = if spec.resp.close_delimited && is_last { stream_len } else { spec.stream().len() };
    if o.consumed != want_consumed {
        return Err(format!("{} server bytes consumed, the response message(s) of this exchange are {} bytes", o.consumed, want_consumed));
    }
    Ok(())
}
