//! Tolerant driver for C12: arbitrary server bytes against every server-facing call.
//!
//! Pure function of (4 configuration bytes, schedule bytes, server bytes): shared by the enumerated,
//! mutated and libFuzzer-generated inputs and by their replay.

use ureq_proto::client::flow::{Await100Result, Flow, RecvBodyResult, RecvResponseResult, RedirectAuthHeaders, SendRequestResult};
use ureq_proto::http::{Method, Request, Version};

use crate::drive::recv::{needs_body, METHODS};

#[derive(Clone, Debug)]
pub struct Cfg {
    pub method: Method,
    pub v10: bool,
    pub expect: bool,
    pub despite: bool,
    /// 0 auto, 1 content-length, 2 transfer-encoding
    pub framing: u8,
    pub conn_close: bool,
    pub look: bool,
    pub stop_on_boundary: bool,
    pub follow: u8,
}

impl Cfg {
    pub fn decode(b: [u8; 4]) -> Cfg {
        let mut method = METHODS[(b[0] % 9) as usize].clone();
        let v10 = b[1] & 1 == 1;
        if v10 && ![Method::GET, Method::HEAD, Method::POST].contains(&method) {
            method = [Method::GET, Method::HEAD, Method::POST][(b[0] % 3) as usize].clone();
        }
        let expect = b[1] & 2 != 0;
        let despite = b[1] & 4 != 0 && !needs_body(&method);
        let body = needs_body(&method) || despite;
        Cfg {
            method,
            v10,
            expect,
            despite,
            framing: if body { b[2] % 3 } else { 0 },
            conn_close: b[1] & 8 != 0,
            look: b[1] & 16 != 0,
            stop_on_boundary: b[1] & 32 != 0,
            follow: b[3] % 3,
        }
    }

    pub fn describe(&self) -> String {
        format!(
            "{} HTTP/1.{} expect={} despite={} framing={} conn_close={} look={} stop={} follow={}",
            self.method, if self.v10 { 0 } else { 1 }, self.expect, self.despite, self.framing, self.conn_close, self.look, self.stop_on_boundary, self.follow
        )
    }
}

/// Cyclic byte schedule: 0 = "everything / ample".
pub struct ByteSched<'a> {
    b: &'a [u8],
    i: usize,
    /// after this many scheduled choices everything arrives at once and buffers are ample (bounds the work)
    budget: usize,
}

impl<'a> ByteSched<'a> {
    pub fn new(b: &'a [u8]) -> Self {
        ByteSched { b, i: 0, budget: 160 }
    }
    fn next(&mut self) -> u8 {
        if self.b.is_empty() || self.i >= self.budget {
            return 0;
        }
        let v = self.b[self.i % self.b.len()];
        self.i += 1;
        v
    }
    /// how many more bytes arrive (1..=pending): schedule byte 0 = all; 1..=199 that many; 200..=219 up to the next CR;
    /// 220..=239 up to and including the next CR (the arrival ends between CR and LF); 240..=255 up to and including the
    /// next LF - line-structure-aware arrivals, which is where segmentation-sensitive index arithmetic lives
    fn arrive(&mut self, pending: &[u8]) -> usize {
        let available = pending.len();
        if available == 0 {
            return 0;
        }
        match self.next() {
            0 => available,
            v if v < 200 => (v as usize).min(available),
            v if v < 220 => pending.iter().skip(1).position(|b| *b == b'\r').map(|p| p + 1).unwrap_or(available),
            v if v < 240 => pending.iter().position(|b| *b == b'\r').map(|p| p + 1).unwrap_or(available),
            _ => pending.iter().position(|b| *b == b'\n').map(|p| p + 1).unwrap_or(available),
        }
    }
    fn out(&mut self, ample: usize) -> usize {
        match self.next() {
            0 => ample,
            v if v < 128 => (v as usize) - 1,
            v => (v as usize - 127) * 37,
        }
    }
}

thread_local! {
    static OBUF: std::cell::RefCell<Vec<u8>> = std::cell::RefCell::new(vec![0u8; 1 << 14]);
}

#[derive(Default, Debug, Clone)]
pub struct Info {
    pub server_calls: u32,
    pub errors: u32,
    pub reached: &'static str,
    pub accepted_whole_exchange: bool,
    pub consumed: usize,
}

fn is_subsequence(small: &[u8], big: &[u8]) -> bool {
    let mut j = 0;
    for b in small {
        loop {
            if j >= big.len() {
                return false;
            }
            j += 1;
            if big[j - 1] == *b {
                break;
            }
        }
    }
    true
}

pub fn chaos_run(cfg: &Cfg, sched: &[u8], server: &[u8]) -> Result<Info, String> {
    let mut info = Info { reached: "Prepare", ..Default::default() };
    let mut s = ByteSched::new(sched);
    let mut b = Request::builder()
        .method(cfg.method.clone())
        .uri("http://h.test/c?x=1")
        .version(if cfg.v10 { Version::HTTP_10 } else { Version::HTTP_11 })
        .header("authorization", "secret");
    if cfg.expect {
        b = b.header("expect", "100-continue");
    }
    if cfg.conn_close {
        b = b.header("connection", "close");
    }
    let body: &[u8] = b"0123456789";
    match cfg.framing {
        1 => b = b.header("content-length", "10"),
        2 => b = b.header("transfer-encoding", "chunked"),
        _ => {}
    }
    let mut f = Flow::new(b.body(()).map_err(|e| e.to_string())?).map_err(|e| format!("harness: Flow::new: {:?}", e))?;
    if cfg.despite {
        f.send_body_despite_method();
    }
    let mut sr = f.proceed();
    let mut out = [0u8; 1024];
    sr.write(&mut out).map_err(|e| format!("harness: head write: {:?}", e))?;
    let next = sr.proceed().map_err(|e| format!("harness: SendRequest::proceed: {:?}", e))?.ok_or("harness: head incomplete")?;
    let mut consumed = 0usize;
    let mut arrived = 0usize;

    let send = |mut sb: Flow<(), ureq_proto::client::flow::state::SendBody>, out: &mut [u8]| -> Result<Flow<(), ureq_proto::client::flow::state::RecvResponse>, String> {
        let mut rest = body;
        let mut guard = 0;
        while !sb.can_proceed() {
            let (i, _) = sb.write(rest, out).map_err(|e| format!("harness: body write: {:?}", e))?;
            rest = &rest[i..];
            guard += 1;
            if guard > 8 {
                return Err("harness: body does not finish".into());
            }
        }
        sb.proceed().ok_or_else(|| "harness: finished body cannot advance".to_string())
    };

    let mut rr = match next {
        SendRequestResult::RecvResponse(r) => r,
        SendRequestResult::SendBody(sb) => send(sb, &mut out)?,
        SendRequestResult::Await100(mut a) => {
            info.reached = "Await100";
            if cfg.look {
                let mut tries = 0;
                while a.can_keep_await_100() && tries < 64 {
                    tries += 1;
                    let inc = s.arrive(&server[arrived..]);
                    arrived += inc;
                    info.server_calls += 1;
                    match a.try_read_100(&server[consumed..arrived]) {
                        Ok(n) => {
                            if n > arrived - consumed {
                                return Err(format!("try_read_100 consumed {} of {} offered bytes", n, arrived - consumed));
                            }
                            consumed += n;
                        }
                        Err(_) => {
                            info.errors += 1;
                            break;
                        }
                    }
                    if arrived == server.len() && inc == 0 {
                        break;
                    }
                }
            }
            let _ = a.can_keep_await_100();
            match a.proceed() {
                Err(_) => {
                    info.errors += 1;
                    info.consumed = consumed;
                    return Ok(info);
                }
                Ok(Await100Result::SendBody(sb)) => send(sb, &mut out)?,
                Ok(Await100Result::RecvResponse(r)) => r,
            }
        }
    };
    info.reached = "RecvResponse";
    // ---- response head
    let mut got_response = false;
    let mut steps = 0;
    loop {
        steps += 1;
        if steps > server.len() * 2 + 16 {
            break;
        }
        let inc = s.arrive(&server[arrived..]);
        arrived += inc;
        info.server_calls += 1;
        match rr.try_response(&server[consumed..arrived]) {
            Ok((n, resp)) => {
                if n > arrived - consumed {
                    return Err(format!("try_response consumed {} of {} offered bytes", n, arrived - consumed));
                }
                consumed += n;
                if resp.is_some() {
                    got_response = true;
                    // a response was handed out; if the flow is not ready to advance (an interim 100 nobody asked
                    // for), the caller's only move is to ask again with the bytes that follow
                    if rr.can_proceed() || (n == 0 && arrived == server.len()) {
                        break;
                    }
                    continue;
                }
                if n == 0 && arrived == server.len() {
                    break;
                }
            }
            Err(_) => {
                info.errors += 1;
                break;
            }
        }
    }
    // state-advancing calls afterwards must not panic, whatever happened
    let _ = rr.can_proceed();
    let next = rr.proceed();
    let next = match next {
        Some(n) => n,
        None => {
            info.consumed = consumed;
            return Ok(info);
        }
    };
    let _ = got_response;
    let terminal = match next {
        RecvResponseResult::Redirect(r) => Some(Ok(r)),
        RecvResponseResult::Cleanup(c) => Some(Err(c)),
        RecvResponseResult::RecvBody(mut bd) => {
            info.reached = "RecvBody";
            bd.stop_on_chunk_boundary(cfg.stop_on_boundary);
            let _ = bd.body_mode();
            let mut idle = 0;
            let mut steps = 0;
            let mut failed = false;
            OBUF.with(|ob| -> Result<(), String> {
            let mut ob = ob.borrow_mut();
            let obuf: &mut [u8] = &mut ob[..];
            loop {
                steps += 1;
                if steps > server.len() * 3 + 64 {
                    break;
                }
                let inc = s.arrive(&server[arrived..]);
                arrived += inc;
                let win = &server[consumed..arrived];
                let osz = s.out(win.len() + 16).min(obuf.len());
                info.server_calls += 1;
                match bd.read(win, &mut obuf[..osz]) {
                    Ok((i, o)) => {
                        if i > win.len() || o > osz {
                            return Err(format!("body read returned ({}, {}) for a {}-byte window and a {}-byte buffer", i, o, win.len(), osz));
                        }
                        if !is_subsequence(&obuf[..o], &win[..i]) {
                            return Err(format!("body read produced bytes that are not an in-order copy of the consumed input (consumed {}, produced {})", i, o));
                        }
                        consumed += i;
                        if i == 0 && o == 0 && inc == 0 {
                            idle += 1;
                        } else {
                            idle = 0;
                        }
                    }
                    Err(_) => {
                        info.errors += 1;
                        failed = true;
                        break;
                    }
                }
                let _ = bd.is_on_chunk_boundary();
                if bd.can_proceed() && (bd.body_mode() != ureq_proto::BodyMode::CloseDelimited || arrived == server.len() && consumed == arrived) {
                    break;
                }
                if arrived == server.len() && idle > 3 {
                    break;
                }
            }
            Ok(())
            })?;
            let _ = bd.can_proceed();
            let nx = bd.proceed();
            let _ = failed;
            match nx {
                None => None,
                Some(RecvBodyResult::Redirect(r)) => Some(Ok(r)),
                Some(RecvBodyResult::Cleanup(c)) => Some(Err(c)),
            }
        }
    };
    match terminal {
        None => {}
        Some(Err(c)) => {
            info.reached = "Cleanup";
            let _ = c.must_close_connection();
            let _ = c.close_reason();
            info.accepted_whole_exchange = info.errors == 0;
        }
        Some(Ok(mut r)) => {
            info.reached = "Redirect";
            let _ = r.status();
            let _ = r.must_close_connection();
            let _ = r.close_reason();
            if cfg.follow > 0 {
                let policy = if cfg.follow == 1 { RedirectAuthHeaders::Never } else { RedirectAuthHeaders::SameHost };
                match r.as_new_flow(policy) {
                    Ok(Some(nf)) => {
                        // a follow-up head write on the redirected flow must not panic (it may be refused)
                        let _ = nf.uri();
                        let mut sr = nf.proceed();
                        let _ = sr.write(&mut out);
                        let ready = sr.can_proceed();
                        // ... and the followed flow is a flow like any other: when its request went out, a plain relative redirect
                        // is answered and followed once more (a target that was accepted on the first hop is the base of the
                        // second one), then a head write on that flow
                        if ready {
                            if let Ok(Some(SendRequestResult::RecvResponse(mut rr))) = sr.proceed() {
                                let second = b"HTTP/1.1 302 Found\r\nLocation: /moved/again?x=1\r\nContent-Length: 0\r\n\r\n";
                                if let Ok((_, Some(_))) = rr.try_response(second) {
                                    if let Some(RecvResponseResult::Redirect(mut r2)) = rr.proceed() {
                                        match r2.as_new_flow(policy) {
                                            Ok(Some(nf2)) => {
                                                let _ = nf2.uri();
                                                let mut sr2 = nf2.proceed();
                                                let _ = sr2.write(&mut out);
                                                let _ = sr2.can_proceed();
                                            }
                                            Ok(None) => {}
                                            Err(_) => info.errors += 1,
                                        }
                                        let _ = r2.proceed().must_close_connection();
                                    }
                                }
                            }
                        }
                    }
                    Ok(None) => {}
                    Err(_) => info.errors += 1,
                }
            }
            let c = r.proceed();
            let _ = c.must_close_connection();
            info.accepted_whole_exchange = info.errors == 0;
        }
    }
    info.consumed = consumed;
    Ok(info)
}

/// libFuzzer / replay entry: [4 config bytes][1 schedule length n <= 15][n schedule bytes][server bytes]
pub fn run_bytes(data: &[u8]) -> Result<Option<Info>, String> {
    if data.len() < 5 {
        return Ok(None);
    }
    let cfg = Cfg::decode([data[0], data[1], data[2], data[3]]);
    let n = (data[4] & 15) as usize;
    if data.len() < 5 + n {
        return Ok(None);
    }
    let sched = &data[5..5 + n];
    let server = &data[5 + n..];
    chaos_run(&cfg, sched, server).map(Some)
}
