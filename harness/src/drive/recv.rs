//! Flows and calls positioned in the receive-response state.

use ureq_proto::client::call::state::RecvResponse as CallRecvResponse;
use ureq_proto::client::call::Call;
use ureq_proto::client::flow::state::RecvResponse;
use ureq_proto::client::flow::{Flow, SendRequestResult};
use ureq_proto::http::{Method, Request, Version};

pub const METHODS: [Method; 9] = [
    Method::GET,
    Method::HEAD,
    Method::POST,
    Method::PUT,
    Method::DELETE,
    Method::CONNECT,
    Method::OPTIONS,
    Method::TRACE,
    Method::PATCH,
];

pub fn needs_body(m: &Method) -> bool {
    *m == Method::POST || *m == Method::PUT || *m == Method::PATCH
}

/// A flow that has sent its request (with an empty body where the method needs one) and now waits
/// for the response.
pub fn flow_recv(method: &Method, v10: bool, extra: &[(&str, &str)]) -> Result<Flow<(), RecvResponse>, String> {
    let mut b = Request::builder()
        .method(method.clone())
        .uri("http://h.test/p")
        .version(if v10 { Version::HTTP_10 } else { Version::HTTP_11 });
    for (k, v) in extra {
        b = b.header(*k, *v);
    }
    if needs_body(method) {
        b = b.header("content-length", "0");
    }
    let req = b.body(()).map_err(|e| e.to_string())?;
    let mut f = Flow::new(req).map_err(|e| format!("Flow::new: {:?}", e))?.proceed();
    let mut out = [0u8; 1024];
    crate::drive::redirect::write_head_until_ready(&mut f, &mut out).map_err(|e| format!("head write: {:?}", e))?;
    match f.proceed().map_err(|e| format!("SendRequest::proceed: {:?}", e))? {
        Some(SendRequestResult::RecvResponse(f)) => Ok(f),
        Some(SendRequestResult::SendBody(mut f)) => {
            f.write(&[], &mut out).map_err(|e| format!("empty body write: {:?}", e))?;
            f.proceed().ok_or_else(|| "empty body not finished".to_string())
        }
        Some(SendRequestResult::Await100(a)) => match a.proceed().map_err(|e| format!("Await100::proceed: {:?}", e))? {
            // nobody looked at the socket: the caller gives up waiting and sends the (empty) body
            ureq_proto::client::flow::Await100Result::SendBody(mut f) => {
                f.write(&[], &mut out).map_err(|e| format!("empty body write: {:?}", e))?;
                f.proceed().ok_or_else(|| "empty body not finished".to_string())
            }
            ureq_proto::client::flow::Await100Result::RecvResponse(f) => Ok(f),
        },
        None => Err("head incomplete after ample write".into()),
    }
}

/// POST with `Expect: 100-continue` whose interim 100 is read while awaiting it; the (empty, chunked) body is then sent.
pub fn flow_recv_saw_100(v10: bool, interim: &[u8]) -> Result<Flow<(), RecvResponse>, String> {
    let req = Request::builder()
        .method(Method::POST)
        .uri("http://h.test/p")
        .version(if v10 { Version::HTTP_10 } else { Version::HTTP_11 })
        .header("expect", "100-continue")
        .body(())
        .map_err(|e| e.to_string())?;
    let mut f = Flow::new(req).map_err(|e| format!("Flow::new: {:?}", e))?.proceed();
    let mut out = [0u8; 1024];
    crate::drive::redirect::write_head_until_ready(&mut f, &mut out).map_err(|e| format!("head write: {:?}", e))?;
    match f.proceed().map_err(|e| format!("SendRequest::proceed: {:?}", e))? {
        Some(SendRequestResult::Await100(mut a)) => {
            let n = a.try_read_100(interim).map_err(|e| format!("try_read_100: {:?}", e))?;
            if n != interim.len() {
                return Err(format!("interim 100: {} of {} bytes consumed", n, interim.len()));
            }
            match a.proceed().map_err(|e| format!("Await100::proceed: {:?}", e))? {
                ureq_proto::client::flow::Await100Result::SendBody(mut f) => {
                    f.write(&[], &mut out).map_err(|e| format!("empty body write: {:?}", e))?;
                    f.proceed().ok_or_else(|| "empty body not finished".to_string())
                }
                ureq_proto::client::flow::Await100Result::RecvResponse(_) => Err("100 seen but the flow wants the response".into()),
            }
        }
        _ => Err("expected Await100 after the head".into()),
    }
}

pub fn call_recv(method: &Method, v10: bool) -> Result<Call<CallRecvResponse, ()>, String> {
    let mut b = Request::builder()
        .method(method.clone())
        .uri("http://h.test/p")
        .version(if v10 { Version::HTTP_10 } else { Version::HTTP_11 });
    if needs_body(method) {
        b = b.header("content-length", "0");
    }
    let req = b.body(()).map_err(|e| e.to_string())?;
    let mut out = [0u8; 1024];
    if needs_body(method) {
        let mut c = Call::with_body(req).map_err(|e| format!("{:?}", e))?;
        c.write(&[], &mut out).map_err(|e| format!("head write: {:?}", e))?;
        c.write(&[], &mut out).map_err(|e| format!("empty body write: {:?}", e))?;
        c.into_receive().map_err(|e| format!("into_receive: {:?}", e))
    } else {
        let mut c = Call::without_body(req).map_err(|e| format!("{:?}", e))?;
        c.write(&mut out).map_err(|e| format!("head write: {:?}", e))?;
        c.into_receive().map_err(|e| format!("into_receive: {:?}", e))
    }
}

// ---------------------------------------------------------------------------------------------
// body readers

use ureq_proto::client::call::state::RecvBody as CallRecvBody;
use ureq_proto::client::flow::state::RecvBody;
use ureq_proto::client::flow::RecvResponseResult;
use ureq_proto::{BodyMode, Error};

pub use super::sender::Api;

pub enum Reader {
    Flow(Flow<(), RecvBody>),
    Call(Call<CallRecvBody, ()>),
}

impl Reader {
    /// Send a request, feed `head` (a complete response head) and enter the body state.
    pub fn new(api: Api, method: &Method, req_v10: bool, head: &[u8]) -> Result<Reader, String> {
        match api {
            Api::Flow => {
                let mut f = flow_recv(method, req_v10, &[])?;
                match f.try_response(head) {
                    Ok((n, Some(_))) if n == head.len() => {}
                    other => return Err(format!("head not accepted: {:?}", other.map(|o| (o.0, o.1.is_some())))),
                }
                match f.proceed() {
                    Some(RecvResponseResult::RecvBody(b)) => Ok(Reader::Flow(b)),
                    Some(_) => Err("flow did not enter the body state".into()),
                    None => Err("flow cannot proceed after the head".into()),
                }
            }
            Api::Call => {
                let mut c = call_recv(method, req_v10)?;
                match c.try_response(head) {
                    Ok(Some((n, _))) if n == head.len() => {}
                    other => return Err(format!("head not accepted: {:?}", other.map(|o| o.map(|x| x.0)))),
                }
                match c.into_body() {
                    Ok(Some(b)) => Ok(Reader::Call(b)),
                    Ok(None) => Err("call has no body".into()),
                    Err(e) => Err(format!("into_body: {:?}", e)),
                }
            }
        }
    }

    /// Routes into the body state of a flow that differ in what happened before the head:
    /// 0 plain GET; 1 POST with Expect, the caller gave up waiting, and the late `100 Continue` sits in the same window as the head;
    /// 2 the same but the 100 arrives in a call of its own; 3 POST with Expect, the 100 was seen while awaiting it;
    /// 4 the head arrives in two pieces (the first piece is re-presented, as nothing of it is consumed); 6, 7, 8 the same with the cut
    /// one, two and three bytes before the end of the head (inside its final CR LF CR LF);
    /// 5 POST with Expect that the server refuses with this very response (the body read belongs to the refusal).
    /// The caller learns where the head ends only from the reported counts, so they must add up to the bytes before the body.
    pub fn new_route(api: Api, route: usize, req_v10: bool, req_close: bool, head: &[u8]) -> Result<Reader, String> {
        if api == Api::Call || (route == 0 && !req_close) {
            return Reader::new(api, &Method::GET, req_v10, head);
        }
        let close: &[(&str, &str)] = if req_close { &[("connection", "close")] } else { &[] };
        let close_expect: &[(&str, &str)] = if req_close { &[("connection", "close"), ("expect", "100-continue")] } else { &[("expect", "100-continue")] };
        const C100: &[u8] = b"HTTP/1.1 100 Continue\r\n\r\n";
        if route == 5 {
            // the request asked for 100-continue and the server answers with this very response instead: the flow leaves
            // Await100 for RecvResponse without sending its body, and the body that follows belongs to the refusal
            return Reader::refused_expect(req_v10, head);
        }
        let mut f = match route {
            1 | 2 => flow_recv(&Method::POST, req_v10, close_expect)?,
            3 => flow_recv_saw_100(req_v10, C100)?,
            _ => flow_recv(&Method::GET, req_v10, close)?,
        };
        let mut win: Vec<u8> = vec![];
        let pieces: Vec<&[u8]> = match route {
            1 => {
                win.extend_from_slice(C100);
                win.extend_from_slice(head);
                vec![&win[..]]
            }
            2 => vec![C100, head],
            4 | 6 | 7 | 8 => {
                win.extend_from_slice(head);
                let cut = if route == 4 { head.len() / 2 } else { head.len() - (route - 5) };
                vec![&head[..cut], &win[..]]
            }
            _ => vec![head],
        };
        let expect: usize = match route {
            1 | 2 => C100.len() + head.len(),
            _ => head.len(),
        };
        let mut total = 0usize;
        let mut got = false;
        for piece in pieces {
            let mut pos = 0usize;
            for _ in 0..4 {
                let (n, r) = f.try_response(&piece[pos..]).map_err(|e| format!("route {}: try_response failed: {:?}", route, e))?;
                if n > piece.len() - pos {
                    return Err(format!("route {}: try_response consumed {} of {} bytes", route, n, piece.len() - pos));
                }
                pos += n;
                total += n;
                if r.is_some() {
                    got = true;
                    break;
                }
                if n == 0 {
                    break;
                }
            }
            if got {
                break;
            }
        }
        if !got {
            return Err(format!("route {}: no response although the whole head was offered", route));
        }
        if total != expect {
            return Err(format!(
                "route {}: {} server bytes reported consumed up to the end of the head, but {} precede the body: the body would be read from the wrong offset",
                route, total, expect
            ));
        }
        match f.proceed() {
            Some(RecvResponseResult::RecvBody(b)) => Ok(Reader::Flow(b)),
            Some(_) => Err("flow did not enter the body state".into()),
            None => Err("flow cannot proceed after the head".into()),
        }
    }

    fn refused_expect(req_v10: bool, head: &[u8]) -> Result<Reader, String> {
        let req = Request::builder()
            .method(Method::POST)
            .uri("http://h.test/p")
            .version(if req_v10 { Version::HTTP_10 } else { Version::HTTP_11 })
            .header("expect", "100-continue")
            .body(())
            .map_err(|e| e.to_string())?;
        let mut f = Flow::new(req).map_err(|e| format!("Flow::new: {:?}", e))?.proceed();
        let mut out = [0u8; 1024];
        crate::drive::redirect::write_head_until_ready(&mut f, &mut out).map_err(|e| format!("head write: {:?}", e))?;
        let mut a = match f.proceed().map_err(|e| format!("SendRequest::proceed: {:?}", e))? {
            Some(SendRequestResult::Await100(a)) => a,
            _ => return Err("expected Await100 after the head".into()),
        };
        let n = a.try_read_100(head).map_err(|e| format!("try_read_100 on the refusal: {:?}", e))?;
        if n != 0 || a.can_keep_await_100() {
            return Err(format!("a non-100 response while awaiting 100: consumed {}, still awaiting = {}", n, a.can_keep_await_100()));
        }
        let mut rr = match a.proceed().map_err(|e| format!("Await100::proceed: {:?}", e))? {
            ureq_proto::client::flow::Await100Result::RecvResponse(r) => r,
            _ => return Err("refused Expect but the flow wants to send the body".into()),
        };
        match rr.try_response(head) {
            Ok((n, Some(_))) if n == head.len() => {}
            other => return Err(format!("refusal head not accepted: {:?}", other.map(|o| (o.0, o.1.is_some())))),
        }
        match rr.proceed() {
            Some(RecvResponseResult::RecvBody(b)) => Ok(Reader::Flow(b)),
            Some(_) => Err("flow did not enter the body state".into()),
            None => Err("flow cannot proceed after the head".into()),
        }
    }

    pub fn read(&mut self, input: &[u8], out: &mut [u8]) -> Result<(usize, usize), Error> {
        match self {
            Reader::Flow(f) => f.read(input, out),
            Reader::Call(c) => c.read(input, out),
        }
    }

    pub fn set_stop(&mut self, on: bool) {
        match self {
            Reader::Flow(f) => f.stop_on_chunk_boundary(on),
            Reader::Call(c) => c.stop_on_chunk_boundary(on),
        }
    }

    pub fn on_boundary(&self) -> bool {
        match self {
            Reader::Flow(f) => f.is_on_chunk_boundary(),
            Reader::Call(c) => c.is_on_chunk_boundary(),
        }
    }

    /// The body has been received completely (for close-delimited bodies: never).
    pub fn ended(&self) -> bool {
        match self {
            Reader::Flow(f) => f.can_proceed() && f.body_mode() != BodyMode::CloseDelimited,
            Reader::Call(c) => c.is_ended(),
        }
    }

    pub fn can_proceed(&self) -> Option<bool> {
        match self {
            Reader::Flow(f) => Some(f.can_proceed()),
            Reader::Call(_) => None,
        }
    }

    pub fn body_mode(&self) -> Option<BodyMode> {
        match self {
            Reader::Flow(f) => Some(f.body_mode()),
            Reader::Call(_) => None,
        }
    }

    pub fn close_delimited(&self) -> bool {
        match self {
            Reader::Flow(f) => f.body_mode() == BodyMode::CloseDelimited,
            Reader::Call(c) => c.is_close_delimited(),
        }
    }
}
