//! Flows and calls positioned in the receive-response state.

use ureq_proto::client::call::state::RecvResponse as CallRecvResponse;
use ureq_proto::client::call::Call;
use ureq_proto::client::flow::state::RecvResponse;
use ureq_proto::client::flow::{Flow, SendRequestResult};
use ureq_proto::http::{Method, Request, Version};

pub const METHODS: [Method; 9] = [
    Method::GET,
    Method::HEAD,
    Method::POST,
    Method::PUT,
    Method::DELETE,
    Method::CONNECT,
    Method::OPTIONS,
    Method::TRACE,
    Method::PATCH,
];

pub fn needs_body(m: &Method) -> bool {
    *m == Method::POST || *m == Method::PUT || *m == Method::PATCH
}

/// A flow that has sent its request (with an empty body where the method needs one) and now waits
/// for the response.
pub fn flow_recv(method: &Method, v10: bool, extra: &[(&str, &str)]) -> Result<Flow<(), RecvResponse>, String> {
    let mut b = Request::builder()
        .method(method.clone())
        .uri("http://h.test/p")
        .version(if v10 { Version::HTTP_10 } else { Version::HTTP_11 });
    for (k, v) in extra {
        b = b.header(*k, *v);
    }
    if needs_body(method) {
        b = b.header("content-length", "0");
    }
    let req = b.body(()).map_err(|e| e.to_string())?;
    let mut f = Flow::new(req).map_err(|e| format!("Flow::new: {:?}", e))?.proceed();
    let mut out = [0u8; 1024];
    f.write(&mut out).map_err(|e| format!("head write: {:?}", e))?;
    match f.proceed().map_err(|e| format!("SendRequest::proceed: {:?}", e))? {
        Some(SendRequestResult::RecvResponse(f)) => Ok(f),
        Some(SendRequestResult::SendBody(mut f)) => {
            f.write(&[], &mut out).map_err(|e| format!("empty body write: {:?}", e))?;
            f.proceed().ok_or_else(|| "empty body not finished".to_string())
        }
        Some(SendRequestResult::Await100(_)) => Err("unexpected Await100".into()),
        None => Err("head incomplete after ample write".into()),
    }
}

pub fn call_recv(method: &Method, v10: bool) -> Result<Call<CallRecvResponse, ()>, String> {
    let mut b = Request::builder()
        .method(method.clone())
        .uri("http://h.test/p")
        .version(if v10 { Version::HTTP_10 } else { Version::HTTP_11 });
    if needs_body(method) {
        b = b.header("content-length", "0");
    }
    let req = b.body(()).map_err(|e| e.to_string())?;
    let mut out = [0u8; 1024];
    if needs_body(method) {
        let mut c = Call::with_body(req).map_err(|e| format!("{:?}", e))?;
        c.write(&[], &mut out).map_err(|e| format!("head write: {:?}", e))?;
        c.write(&[], &mut out).map_err(|e| format!("empty body write: {:?}", e))?;
        c.into_receive().map_err(|e| format!("into_receive: {:?}", e))
    } else {
        let mut c = Call::without_body(req).map_err(|e| format!("{:?}", e))?;
        c.write(&mut out).map_err(|e| format!("head write: {:?}", e))?;
        c.into_receive().map_err(|e| format!("into_receive: {:?}", e))
    }
}
