//! Which text does the implementation use for which close condition? Learnt from the implementation itself - five canonical
//! exchanges in each of which exactly one of the five conditions of C10 holds - so that "the reason names a condition that
//! actually holds" can be judged without knowing the wording (a library that rewords its reasons keeps the statement).

use std::sync::OnceLock;

use ureq_proto::http::Method;

use super::exchange::{run_exchange, AwaitMode, ExchangeSpec, Outcome, ReqConn, ReqFraming, RespSpec, Sched, ServerPre};
use crate::model::head::{Field, RespHead};

fn spec(k: usize) -> ExchangeSpec {
    let mut fields = vec![];
    let mut close_delimited = false;
    let mut body_wire = vec![];
    let mut status = 200;
    match k {
        2 => {
            fields.push(Field::new("Connection", "close"));
            fields.push(Field::new("Content-Length", "0"));
        }
        3 => {
            status = 403;
            fields.push(Field::new("Content-Length", "0"));
        }
        4 => {
            close_delimited = true;
            body_wire = b"until close".to_vec();
        }
        _ => fields.push(Field::new("Content-Length", "0")),
    }
    ExchangeSpec {
        method: if k == 3 { Method::POST } else { Method::GET },
        req_v10: k == 0,
        uri: "http://h.test/reason".to_string(),
        req_conn: if k == 1 { ReqConn::Close } else { ReqConn::Absent },
        expect: k == 3,
        despite: false,
        req_framing: ReqFraming::Auto,
        extra_headers: vec![],
        body: if k == 3 { b"x".to_vec() } else { vec![] },
        await_mode: AwaitMode::Look,
        server_pre: if k == 3 { ServerPre::Refuse } else { ServerPre::Silent },
        resp: RespSpec {
            head: RespHead { v11: true, status, reason: Some(b"R".to_vec()), fields },
            payload: body_wire.clone(),
            body_wire,
            close_delimited,
        },
        prep: 0,
    }
}

/// The reason text of each condition (index as in `ExchangeSpec::close_conditions`), `None` where it could not be learnt.
pub fn reason_texts() -> &'static [Option<&'static str>; 5] {
    static T: OnceLock<[Option<&'static str>; 5]> = OnceLock::new();
    T.get_or_init(|| {
        let mut out = [None; 5];
        for (k, slot) in out.iter_mut().enumerate() {
            let sp = spec(k);
            let conds = sp.close_conditions();
            if conds.iter().filter(|c| **c).count() != 1 || !conds[k] {
                continue;
            }
            let stream = sp.stream();
            if let Ok(Outcome::Done(obs, _)) = run_exchange(&sp, None, &stream, &mut Sched::canonical()) {
                if obs.must_close {
                    *slot = obs.reason;
                }
            }
        }
        // texts must tell the conditions apart
        for a in 0..5 {
            for b in a + 1..5 {
                if out[a].is_some() && out[a] == out[b] {
                    out[a] = None;
                    out[b] = None;
                }
            }
        }
        out
    })
}

/// The condition a reason text stands for, if the text is one of the learnt ones.
pub fn classify(reason: &str) -> Option<usize> {
    reason_texts().iter().position(|t| *t == Some(reason))
}
