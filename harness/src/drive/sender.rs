//! Request-body senders in the body state, through either public API.

use std::sync::OnceLock;
use ureq_proto::client::call::state::WithBody;
use ureq_proto::client::call::Call;
use ureq_proto::client::flow::state::SendBody;
use ureq_proto::client::flow::{Flow, SendRequestResult};
use ureq_proto::http::{Method, Request};
use ureq_proto::Error;

#[derive(Clone, Copy, Debug, PartialEq, Eq)]
pub enum Kind {
    /// POST without framing header: chunked by default
    DefaultChunked,
    /// POST with an explicit `transfer-encoding: chunked`
    ExplicitTe,
    /// GET + send_body_despite_method(), no framing header (Flow only)
    DespiteGet,
    /// PUT with `content-length: n`
    Sized(u64),
    /// POST over HTTP/1.0 without framing header (the library still frames it chunked)
    DefaultChunkedHttp10,
    /// POST with explicit `host` and `transfer-encoding: chunked` headers (nothing left for the library to add)
    ExplicitTeAndHost,
    /// PUT with explicit `host` and `content-length: n`
    SizedAndHost(u64),
    /// POST with `Transfer-Encoding: Chunked` / `CHUNKED` (coding names are case-insensitive)
    ExplicitTeOtherCase(bool),
    /// POST with `transfer-encoding: chunked` and `content-length: n` (chunked wins, the length is not a limit)
    TeAndCl(u64),
    /// POST with `transfer-encoding: gzip`, `transfer-encoding: chunked` on two lines and `content-length: n`
    TeTwoLinesAndCl(u64),
    /// POST with `Transfer-Encoding: Chunked` / `CHUNKED` and `content-length: n` (chunked wins whatever its spelling)
    TeOtherCaseAndCl(u64, bool),
    /// POST with `Expect: 100-continue` (chunked by default): the body state is reached through Await100, with the interim
    /// 100 seen or after giving up waiting (Flow only)
    ViaAwait100 { saw_100: bool },
    /// PUT with `Expect: 100-continue` and `content-length: n`, through Await100 (Flow only)
    SizedViaAwait100(u64, bool),
    /// DELETE whose `content-length: n` is added with `Flow::header()` before or after `send_body_despite_method()` (Flow only)
    DespiteSized(u64, bool),
    /// GET whose `transfer-encoding: chunked` is added with `Flow::header()` before `send_body_despite_method()` (Flow only)
    DespiteChunkedHeaderFirst,
    /// POST, chunked by default; the head is written in three pieces and `SendRequest::write` is called twice more after the head
    /// is complete (a "write until 0" driver): those calls emit nothing and must not touch the body (Flow only)
    DefaultChunkedExtraHeadWrites,
    /// PUT with `content-length: n`, same driver (Flow only)
    SizedExtraHeadWrites(u64),
}

impl Kind {
    pub fn is_chunked(self) -> bool {
        !matches!(self, Kind::Sized(_) | Kind::SizedAndHost(_) | Kind::SizedViaAwait100(..) | Kind::DespiteSized(..) | Kind::SizedExtraHeadWrites(_))
    }

    /// the declared Content-Length when the body is framed by it
    pub fn sized_len(self) -> Option<u64> {
        match self {
            Kind::Sized(n) | Kind::SizedAndHost(n) | Kind::SizedViaAwait100(n, _) | Kind::DespiteSized(n, _) | Kind::SizedExtraHeadWrites(n) => Some(n),
            _ => None,
        }
    }

    pub fn flow_only(self) -> bool {
        matches!(
            self,
            Kind::DespiteGet | Kind::ViaAwait100 { .. } | Kind::SizedViaAwait100(..) | Kind::DespiteSized(..) | Kind::DespiteChunkedHeaderFirst | Kind::DefaultChunkedExtraHeadWrites | Kind::SizedExtraHeadWrites(_)
        )
    }
}

#[derive(Clone, Copy, Debug, PartialEq, Eq)]
pub enum Api {
    Flow,
    Call,
}

pub enum Sender {
    Flow(Flow<(), SendBody>),
    Call(Call<WithBody, ()>),
}

/// `Sender::new` answers this for a `Content-Length: 0` request whose flow goes from the head straight to the response: whether a body of
/// zero bytes is "due" is not stated (C09), so a flow without a body state for it is as good as one whose body state is finished by the
/// end signal; the statements about body writes are vacuous there.
pub const NO_BODY_STATE: &str = "Content-Length: 0: the flow has no body state";

pub const PATTERN_LEN: usize = (1 << 22) + 70_000;

/// A long deterministic byte pattern without short periods; bodies are slices of it.
pub fn pattern() -> &'static [u8] {
    static P: OnceLock<Vec<u8>> = OnceLock::new();
    P.get_or_init(|| {
        let mut v = Vec::with_capacity(PATTERN_LEN);
        let mut x: u32 = 0x1357_9bdf;
        for i in 0..PATTERN_LEN {
            x ^= x << 13;
            x ^= x >> 17;
            x ^= x << 5;
            // sprinkle protocol-relevant bytes so that data containing CR/LF/digits is the norm
            let b = match i % 11 {
                3 => b'\r',
                4 => b'\n',
                7 => b'0',
                _ => (x >> 11) as u8,
            };
            v.push(b);
        }
        v
    })
}

impl Sender {
    pub fn new(api: Api, kind: Kind) -> Result<Sender, String> {
        let mut b = Request::builder().uri("http://h.test/p");
        b = match kind {
            Kind::DefaultChunked => b.method(Method::POST),
            Kind::ExplicitTe => b.method(Method::POST).header("transfer-encoding", "chunked"),
            Kind::DespiteGet => b.method(Method::GET),
            Kind::Sized(n) => b.method(Method::PUT).header("content-length", n.to_string()),
            Kind::DefaultChunkedHttp10 => b.method(Method::POST).version(ureq_proto::http::Version::HTTP_10),
            Kind::ExplicitTeAndHost => b.method(Method::POST).header("Host", "explicit.test").header("Transfer-Encoding", "chunked"),
            Kind::SizedAndHost(n) => b.method(Method::PUT).header("host", "explicit.test").header("content-length", n.to_string()),
            Kind::ExplicitTeOtherCase(upper) => b.method(Method::POST).header("Transfer-Encoding", if upper { "CHUNKED" } else { "Chunked" }),
            Kind::TeAndCl(n) => b.method(Method::POST).header("content-length", n.to_string()).header("transfer-encoding", "chunked"),
            Kind::TeOtherCaseAndCl(n, upper) => b.method(Method::POST).header("Content-Length", n.to_string()).header("Transfer-Encoding", if upper { "CHUNKED" } else { "Chunked" }),
            Kind::TeTwoLinesAndCl(n) => b
                .method(Method::POST)
                .header("transfer-encoding", "gzip")
                .header("content-length", n.to_string())
                .header("transfer-encoding", "chunked"),
            Kind::ViaAwait100 { .. } => b.method(Method::POST).header("expect", "100-continue"),
            Kind::SizedViaAwait100(n, _) => b.method(Method::PUT).header("Expect", "100-continue").header("content-length", n.to_string()),
            Kind::DespiteSized(..) => b.method(Method::DELETE),
            Kind::DespiteChunkedHeaderFirst => b.method(Method::GET),
            Kind::DefaultChunkedExtraHeadWrites => b.method(Method::POST),
            Kind::SizedExtraHeadWrites(n) => b.method(Method::PUT).header("content-length", n.to_string()),
        };
        let req = b.body(()).map_err(|e| e.to_string())?;
        let mut head = [0u8; 512];
        match api {
            Api::Flow => {
                let mut f = Flow::new(req).map_err(|e| format!("Flow::new: {:?}", e))?;
                match kind {
                    Kind::DespiteGet => {
                        // as a statement: what the call returns is not part of any statement
                        f.send_body_despite_method();
                    }
                    Kind::DespiteSized(n, header_first) => {
                        // the two Prepare-state calls commute
                        if header_first {
                            f.header("content-length", n.to_string()).map_err(|e| format!("Flow::header: {:?}", e))?;
                            f.send_body_despite_method();
                        } else {
                            f.send_body_despite_method();
                            f.header("content-length", n.to_string()).map_err(|e| format!("Flow::header: {:?}", e))?;
                        }
                    }
                    Kind::DespiteChunkedHeaderFirst => {
                        f.header("transfer-encoding", "chunked").map_err(|e| format!("Flow::header: {:?}", e))?;
                        f.send_body_despite_method();
                    }
                    _ => {}
                }
                let mut f = f.proceed();
                if matches!(kind, Kind::DefaultChunkedExtraHeadWrites | Kind::SizedExtraHeadWrites(_)) {
                    // a driver that keeps calling write until it returns 0: small buffers first, then two calls after completion
                    let mut guard = 0;
                    while !f.can_proceed() && guard < 64 {
                        guard += 1;
                        let size = if guard <= 2 { 30 } else { 512 };
                        match f.write(&mut head[..size]) {
                            Ok(_) => {}
                            Err(Error::OutputOverflow) => {}
                            Err(e) => return Err(format!("head write: {:?}", e)),
                        }
                    }
                    for _ in 0..2 {
                        let n = f.write(&mut head).map_err(|e| format!("head write after completion: {:?}", e))?;
                        if n != 0 {
                            return Err(format!("SendRequest::write emitted {} bytes after the head was complete", n));
                        }
                    }
                } else {
                    crate::drive::redirect::write_head_until_ready(&mut f, &mut head).map_err(|e| format!("head write: {:?}", e))?;
                }
                match f.proceed().map_err(|e| format!("SendRequest::proceed: {:?}", e))? {
                    Some(SendRequestResult::SendBody(f)) => Ok(Sender::Flow(f)),
                    Some(SendRequestResult::Await100(mut a)) => {
                        let saw = matches!(kind, Kind::ViaAwait100 { saw_100: true } | Kind::SizedViaAwait100(_, true));
                        if saw {
                            let interim = b"HTTP/1.1 100 Continue\r\n\r\n";
                            let n = a.try_read_100(interim).map_err(|e| format!("try_read_100: {:?}", e))?;
                            if n != interim.len() {
                                return Err(format!("interim 100: {} of {} bytes consumed", n, interim.len()));
                            }
                        }
                        match a.proceed().map_err(|e| format!("Await100::proceed: {:?}", e))? {
                            ureq_proto::client::flow::Await100Result::SendBody(f) => Ok(Sender::Flow(f)),
                            _ => Err("expected SendBody after Await100".into()),
                        }
                    }
                    Some(SendRequestResult::RecvResponse(_)) if kind.sized_len() == Some(0) => Err(NO_BODY_STATE.into()),
                    Some(_) => Err("expected SendBody after the head".into()),
                    None => Err("head not complete after an ample write".into()),
                }
            }
            Api::Call => {
                if kind.flow_only() {
                    return Err("despite-method and Await100 are Flow features".into());
                }
                let mut c = Call::with_body(req).map_err(|e| format!("Call::with_body: {:?}", e))?;
                let (i, _o) = c.write(&[], &mut head).map_err(|e| format!("head write: {:?}", e))?;
                if i != 0 {
                    return Err("head write consumed input".into());
                }
                Ok(Sender::Call(c))
            }
        }
    }

    pub fn write(&mut self, input: &[u8], out: &mut [u8]) -> Result<(usize, usize), Error> {
        match self {
            Sender::Flow(f) => f.write(input, out),
            Sender::Call(c) => c.write(input, out),
        }
    }

    pub fn finished(&self) -> bool {
        match self {
            Sender::Flow(f) => f.can_proceed(),
            Sender::Call(c) => c.is_finished(),
        }
    }

    pub fn direct(&mut self, amount: usize) -> Option<Result<(), Error>> {
        match self {
            Sender::Flow(f) => Some(f.consume_direct_write(amount)),
            Sender::Call(_) => None,
        }
    }

    pub fn max_input(&mut self, n: usize) -> Option<usize> {
        match self {
            Sender::Flow(f) => Some(f.calculate_max_input(n)),
            Sender::Call(_) => None,
        }
    }

    pub fn is_chunked(&mut self) -> Option<bool> {
        match self {
            Sender::Flow(f) => Some(f.is_chunked()),
            Sender::Call(_) => None,
        }
    }

    /// Advancing must succeed exactly when finished. Consumes the sender.
    pub fn advance_ok(self) -> bool {
        match self {
            Sender::Flow(f) => f.proceed().is_some(),
            Sender::Call(c) => c.into_receive().is_ok(),
        }
    }
}

thread_local! {
    static OUT: std::cell::RefCell<Vec<u8>> = std::cell::RefCell::new(Vec::new());
}

/// Borrow a per-thread scratch output buffer of at least `n` bytes, filled with 0xEE.
pub fn with_out<R>(n: usize, f: impl FnOnce(&mut [u8]) -> R) -> R {
    OUT.with(|o| {
        let mut o = o.borrow_mut();
        if o.len() < n {
            o.resize(n, 0xEE);
        }
        f(&mut o[..n])
    })
}
