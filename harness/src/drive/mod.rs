pub mod recv;
pub mod sender;
