pub mod recv;
pub mod redirect;
pub mod sender;
