pub mod chaos;
pub mod exchange;
pub mod exgen;
pub mod recv;
pub mod redirect;
pub mod sender;
pub mod reasons;
