pub mod sender;
