//! Generator of well-formed exchanges (request configuration + server behaviour) for the exchange driver.

use serde_json::{json, Value};
use ureq_proto::http::Method;

use crate::drive::exchange::{AwaitMode, ExchangeSpec, ReqConn, ReqFraming, RespSpec, ServerPre};
use crate::drive::recv::{needs_body, METHODS};
use crate::drive::sender::pattern;
use crate::infra::tape::Tape;
use crate::model::chunk::{encode, ChunkSpec, Coding};
use crate::model::head::{gen_plain_fields, gen_reason, Field, RespHead};

pub const STATUS_POOL: [u16; 20] = [200, 200, 204, 206, 404, 500, 101, 103, 199, 999, 300, 301, 302, 303, 304, 305, 306, 307, 308, 201];

pub fn gen_coding(t: &mut Tape, total: usize) -> Coding {
    let mut chunks = vec![];
    let mut left = total;
    while left > 0 {
        let len = match t.weighted(&[3, 2, 2]) {
            0 => left,
            1 => t.range(1, left.min(20)),
            _ => t.range(1, left),
        };
        let ext: Vec<u8> = match t.weighted(&[5, 1, 1, 1]) {
            0 => vec![],
            1 => b";n=v".to_vec(),
            2 => b" ; x".to_vec(),
            _ => b";q=\"\xe9\"".to_vec(),
        };
        let digits = format!("{:x}", len).len();
        // a few size lines are padded up to the decoder's 20-byte limit
        let lz = if t.chance(15) {
            t.range(1, 2)
        } else if t.chance(10) {
            t.range(17, 20).saturating_sub(digits + ext.len())
        } else {
            0
        };
        chunks.push(ChunkSpec { len, upper: t.bool(), lead_zeros: lz.min(20usize.saturating_sub(digits + ext.len())), ext });
        left -= len;
    }
    Coding {
        chunks,
        last_ext: if t.chance(15) { b";e".to_vec() } else { vec![] },
        last_zeros: if t.chance(15) { 1 } else { 0 },
        trailers: (0..t.weighted(&[6, 2, 1]))
            .map(|i| {
                if i == 0 && t.chance(12) {
                    // a trailer line longer than any plausible scratch size
                    let mut v = b"X-Sig: ".to_vec();
                    v.extend(std::iter::repeat(b's').take(t.range(250, 600)));
                    v
                } else if i == 0 {
                    b"X-Sum: 1".to_vec()
                } else {
                    b"t:".to_vec()
                }
            })
            .collect(),
    }
}

pub fn no_body_clause(method: &Method, status: u16) -> bool {
    *method == Method::HEAD || (*method == Method::CONNECT && (200..300).contains(&status)) || (100..200).contains(&status) || status == 204 || status == 304
}

pub fn gen_payload_len(t: &mut Tape) -> usize {
    match t.weighted(&[2, 5, 2, 1, 1]) {
        0 => 0,
        1 => t.range(1, 40),
        2 => t.range(41, 300),
        3 => t.range(12_000, 25_000),
        // hex-digit boundaries of chunk sizes
        _ => (*t.pick(&[16usize, 256, 4096, 10_240]) + t.below(3)).saturating_sub(1),
    }
}

pub fn continue_bytes(t: &mut Tape) -> Vec<u8> {
    match t.weighted(&[4, 1, 1, 1]) {
        0 => b"HTTP/1.1 100 Continue\r\n\r\n".to_vec(),
        1 => b"HTTP/1.0 100 Continue\r\n\r\n".to_vec(),
        2 => b"HTTP/1.1 100\r\n\r\n".to_vec(),
        _ => format!("HTTP/1.1 100 {}\r\n\r\n", "go ahead ".repeat(6)).into_bytes(),
    }
}

/// A response for `method`. `allow_close`: the response may be close-delimited (it is the last of the stream).
pub fn gen_response(t: &mut Tape, method: &Method, status: u16, allow_close: bool) -> RespSpec {
    let v11 = !t.chance(25);
    let nplain = t.weighted(&[3, 3, 2, 1, 1]);
    let mut fields = gen_plain_fields(t, nplain, true);
    if (300..400).contains(&status) && t.chance(80) {
        let loc = *t.pick(&["/next", "http://other.test/p?q=1", "../up", "?only=query"]);
        let i = t.below(fields.len() + 1);
        fields.insert(i, Field::new(*t.pick(&["Location", "location"]), loc));
    }
    match t.weighted(&[10, 4, 2, 2, 2, 1]) {
        0 => {}
        5 => {
            // the same field many times over (counts near internal capacities)
            let k = t.range(3, 9);
            let v = *t.pick(&["close", "keep-alive"]);
            for _ in 0..k {
                fields.push(Field::new("Connection", v));
            }
        }
        1 => fields.push(Field::new("Connection", "close")),
        2 => fields.push(Field::new("connection", "keep-alive")),
        3 => {
            fields.push(Field::new("Connection", "keep-alive"));
            fields.push(Field::new("Connection", "close"));
        }
        _ => fields.push(Field::new("Connection", "upgrade")),
    }
    let off = t.below(500);
    let mut body_wire = vec![];
    let mut payload = vec![];
    let mut close_delimited = false;
    let mut framing_fields: Vec<Field> = vec![];
    if no_body_clause(method, status) {
        // framing headers are decoration here: no body bytes follow
        match t.weighted(&[2, 1, 1]) {
            0 => {}
            1 => framing_fields.push(Field::new("Content-Length", &t.range(0, 5000).to_string())),
            _ => {
                if v11 {
                    framing_fields.push(Field::new("Transfer-Encoding", "chunked"));
                }
            }
        }
    } else {
        let is3xx = (300..400).contains(&status);
        // 0 CL(n) 1 CL(0) 2 chunked 3 close 4 none(3xx)
        let choice = loop {
            let c = t.weighted(&[4, 1, 3, 2, 2]);
            let ok = match c {
                2 => v11,
                3 => allow_close && !is3xx,
                4 => is3xx,
                _ => true,
            };
            if ok {
                break c;
            }
            if t.mode() != crate::infra::tape::Mode::Direct && t.overrun() > 0 {
                break 0;
            }
        };
        match choice {
            0 => {
                let n = gen_payload_len(t).max(1);
                payload = pattern()[off..off + n].to_vec();
                body_wire = payload.clone();
                framing_fields.push(Field::new(*t.pick(&["Content-Length", "content-length"]), &n.to_string()));
            }
            1 => framing_fields.push(Field::new("Content-Length", "0")),
            2 => {
                let n = gen_payload_len(t);
                payload = pattern()[off..off + n].to_vec();
                let coding = gen_coding(t, n);
                body_wire = encode(&coding, &payload).bytes;
                framing_fields.push(Field::new("Transfer-Encoding", *t.pick(&["chunked", "Chunked", "gzip, chunked"])));
                if t.chance(20) {
                    // Content-Length is ignored when chunked is declared
                    framing_fields.push(Field::new("Content-Length", "3"));
                }
            }
            3 => {
                let n = gen_payload_len(t);
                payload = pattern()[off..off + n].to_vec();
                body_wire = payload.clone();
                close_delimited = true;
            }
            _ => {}
        }
    }
    for f in framing_fields {
        let i = t.below(fields.len() + 1);
        fields.insert(i, f);
    }
    RespSpec { head: RespHead { v11, status, reason: gen_reason(t), fields }, body_wire, payload, close_delimited }
}

pub fn gen_exchange(t: &mut Tape, allow_close: bool) -> ExchangeSpec {
    let req_v10 = t.chance(15);
    let method = if req_v10 { [Method::GET, Method::HEAD, Method::POST][t.below(3)].clone() } else { METHODS[t.below(9)].clone() };
    let despite = !needs_body(&method) && t.chance(20);
    let body_due = needs_body(&method) || despite;
    let expect = t.chance(if body_due { 40 } else { 10 });
    let req_framing = if body_due { *t.pick(&[ReqFraming::Auto, ReqFraming::Cl, ReqFraming::Te]) } else { ReqFraming::Auto };
    let blen = if body_due { gen_payload_len(t) } else { 0 };
    let boff = t.below(300);
    let body = pattern()[1000 + boff..1000 + boff + blen].to_vec();
    let req_conn = match t.weighted(&[6, 1, 1, 1]) {
        0 => ReqConn::Absent,
        1 => ReqConn::Close,
        2 => ReqConn::KeepAlive,
        _ => ReqConn::KeepAliveThenClose,
    };
    let await_mode = if t.bool() { AwaitMode::Look } else { AwaitMode::NeverLook };
    let goes_await = body_due && expect;
    let server_pre = if !expect {
        ServerPre::Silent
    } else {
        match t.weighted(&[3, 3, 2]) {
            0 => ServerPre::Silent,
            1 => ServerPre::Continue(continue_bytes(t)),
            _ => {
                if goes_await {
                    ServerPre::Refuse
                } else {
                    ServerPre::Silent
                }
            }
        }
    };
    let refused = goes_await && await_mode == AwaitMode::Look && server_pre == ServerPre::Refuse;
    let status = if refused {
        *t.pick(&[403u16, 417, 401, 200, 302, 500, 413, 102, 199, 204])
    } else if t.chance(20) {
        // any final status, assigned or not
        t.range(101, 999) as u16
    } else {
        *t.pick(&STATUS_POOL)
    };
    let resp = gen_response(t, &method, status, allow_close);
    let mut extra_headers = vec![];
    if t.chance(25) {
        // credentials first: a redirect suppresses them, whatever follows them must still be written once and in order
        extra_headers.push(("cookie".to_string(), "k=v".to_string()));
        extra_headers.push(("authorization".to_string(), "Basic abc".to_string()));
    }
    for i in 0..t.weighted(&[3, 2, 1]) {
        extra_headers.push((format!("x-h{}", i), "v".repeat(t.range(0, 30))));
    }
    if t.chance(12) {
        // the same (suppressed-on-redirect) name on several lines, with other headers in between
        extra_headers.push(("Cookie".to_string(), "second=line".to_string()));
        if t.bool() {
            extra_headers.push(("cookie".to_string(), "third=line".to_string()));
        }
        if t.bool() {
            extra_headers.push(("Authorization".to_string(), "Bearer second".to_string()));
        }
    }
    // how the framing header and the ordinary headers reach the flow (original request, or Flow::header() before / after
    // send_body_despite_method())
    let prep = if t.chance(20) { 1 + t.below(2) as u8 } else { 0 };
    ExchangeSpec {
        method,
        req_v10,
        uri: "http://h.test/path?x=1".to_string(),
        req_conn,
        expect,
        despite,
        req_framing,
        extra_headers,
        body,
        await_mode,
        server_pre,
        resp,
        prep: prep,
    }
}

pub fn spec_json(e: &ExchangeSpec) -> Value {
    json!({
        "method": e.method.as_str(),
        "req_http10": e.req_v10,
        "req_connection": format!("{:?}", e.req_conn),
        "expect_100": e.expect,
        "despite": e.despite,
        "req_framing": format!("{:?}", e.req_framing),
        "req_body_len": e.body.len(),
        "await": format!("{:?}", e.await_mode),
        "server_pre": match &e.server_pre { ServerPre::Silent => "silent".to_string(), ServerPre::Refuse => "refuse".to_string(), ServerPre::Continue(c) => String::from_utf8_lossy(c).to_string() },
        "response_head": String::from_utf8_lossy(&e.resp.head.bytes()).to_string(),
        "response_body_wire_len": e.resp.body_wire.len(),
        "response_payload_len": e.resp.payload.len(),
        "close_delimited": e.resp.close_delimited,
    })
}
