//! Reference chunked-coding model: a strict incremental decoder for what the client *emits*, and an
//! encoder for what the server *offers*.

/// Strict, incremental decoder for emitted request bodies.
///
/// Grammar accepted: `( HEX+ CRLF DATA{n} CRLF )*  [ "0" CRLF CRLF ]` with n > 0, no extensions, no
/// trailers, hex digits in either case (leading zeros are legal HEXDIGs and tolerated).
#[derive(Clone, Debug, Default)]
pub struct StrictDechunk {
    pub data: Vec<u8>,
    pub chunks: Vec<usize>,
    pub terminated: bool,
    st: St,
    acc: usize,
    digits: usize,
    /// bytes fed after the terminator (always an error, recorded for messages)
    pub garbage: usize,
}

#[derive(Clone, Copy, Debug, PartialEq, Eq, Default)]
enum St {
    #[default]
    SizeStart,
    Size,
    SizeLf,
    Data(usize),
    DataCr,
    DataLf,
    TermCr2,
    TermLf2,
    Done,
}

impl StrictDechunk {
    pub fn new() -> Self {
        Self::default()
    }

    /// True when the decoder sits exactly between two chunks (or at the very start / after the end).
    pub fn at_boundary(&self) -> bool {
        matches!(self.st, St::SizeStart | St::Done)
    }

    pub fn feed(&mut self, bytes: &[u8]) -> Result<(), String> {
        let mut i = 0usize;
        while i < bytes.len() {
            // bulk path for chunk data
            if let St::Data(left) = self.st {
                let take = left.min(bytes.len() - i);
                if take > 1 {
                    self.data.extend_from_slice(&bytes[i..i + take - 1]);
                    i += take - 1;
                    self.st = St::Data(left - (take - 1));
                }
            }
            let b = bytes[i];
            i += 1;
            self.st = match self.st {
                St::SizeStart | St::Size => {
                    if let Some(d) = (b as char).to_digit(16) {
                        self.acc = self
                            .acc
                            .checked_mul(16)
                            .and_then(|v| v.checked_add(d as usize))
                            .ok_or("chunk size overflow")?;
                        self.digits += 1;
                        St::Size
                    } else if b == b'\r' && self.st == St::Size {
                        St::SizeLf
                    } else {
                        return Err(format!("byte 0x{:02x} in chunk size line at +{}", b, i));
                    }
                }
                St::SizeLf => {
                    if b != b'\n' {
                        return Err("size line CR not followed by LF".into());
                    }
                    let n = self.acc;
                    self.acc = 0;
                    self.digits = 0;
                    if n == 0 {
                        St::TermCr2
                    } else {
                        self.chunks.push(n);
                        St::Data(n)
                    }
                }
                St::Data(left) => {
                    self.data.push(b);
                    if left == 1 {
                        St::DataCr
                    } else {
                        St::Data(left - 1)
                    }
                }
                St::DataCr => {
                    if b != b'\r' {
                        return Err(format!("chunk data not followed by CR (0x{:02x})", b));
                    }
                    St::DataLf
                }
                St::DataLf => {
                    if b != b'\n' {
                        return Err("chunk data CR not followed by LF".into());
                    }
                    St::SizeStart
                }
                St::TermCr2 => {
                    if b != b'\r' {
                        return Err("terminator not followed by CRLF".into());
                    }
                    St::TermLf2
                }
                St::TermLf2 => {
                    if b != b'\n' {
                        return Err("terminator CR not followed by LF".into());
                    }
                    self.terminated = true;
                    St::Done
                }
                St::Done => {
                    self.garbage += 1;
                    return Err("bytes after the terminating chunk".into());
                }
            };
        }
        Ok(())
    }
}

/// One chunk of an offered (response) body.
#[derive(Clone, Debug)]
pub struct ChunkSpec {
    pub len: usize,
    pub upper: bool,
    pub lead_zeros: usize,
    pub ext: Vec<u8>, // e.g. b";x=1" or empty
}

#[derive(Clone, Debug, Default)]
pub struct Coding {
    pub chunks: Vec<ChunkSpec>,
    pub last_ext: Vec<u8>,
    pub last_zeros: usize, // extra zeros on the last-chunk line ("000")
    pub trailers: Vec<Vec<u8>>, // each without CRLF, non-empty
}

pub struct Encoded {
    pub bytes: Vec<u8>,
    /// for every payload byte, the index of the chunk it belongs to
    pub chunk_of: Vec<usize>,
    /// offsets in `bytes` where the decoder is "between chunks": right after a chunk's trailing CRLF
    pub boundaries: Vec<usize>,
}

pub fn size_line(len: usize, upper: bool, lead_zeros: usize, ext: &[u8]) -> Vec<u8> {
    let mut s = Vec::new();
    for _ in 0..lead_zeros {
        s.push(b'0');
    }
    let h = if upper {
        format!("{:X}", len)
    } else {
        format!("{:x}", len)
    };
    s.extend_from_slice(h.as_bytes());
    s.extend_from_slice(ext);
    s
}

/// Encode `payload` under `coding`. The chunk lengths must sum to `payload.len()`.
pub fn encode(coding: &Coding, payload: &[u8]) -> Encoded {
    let mut bytes = Vec::new();
    let mut chunk_of = Vec::with_capacity(payload.len());
    let mut boundaries = vec![0usize];
    let mut off = 0;
    for (ci, c) in coding.chunks.iter().enumerate() {
        assert!(c.len > 0);
        let line = size_line(c.len, c.upper, c.lead_zeros, &c.ext);
        assert!(line.len() <= 20, "size line must respect the dechunker's sanity limit");
        bytes.extend_from_slice(&line);
        bytes.extend_from_slice(b"\r\n");
        bytes.extend_from_slice(&payload[off..off + c.len]);
        for _ in 0..c.len {
            chunk_of.push(ci);
        }
        off += c.len;
        bytes.extend_from_slice(b"\r\n");
        boundaries.push(bytes.len());
    }
    assert_eq!(off, payload.len());
    let mut last = vec![b'0'];
    for _ in 0..coding.last_zeros {
        last.push(b'0');
    }
    last.extend_from_slice(&coding.last_ext);
    assert!(last.len() <= 20);
    bytes.extend_from_slice(&last);
    bytes.extend_from_slice(b"\r\n");
    for t in &coding.trailers {
        assert!(!t.is_empty());
        bytes.extend_from_slice(t);
        bytes.extend_from_slice(b"\r\n");
    }
    bytes.extend_from_slice(b"\r\n");
    Encoded {
        bytes,
        chunk_of,
        boundaries,
    }
}

#[cfg(test)]
mod test {
    use super::*;

    #[test]
    fn strict_roundtrip() {
        let mut d = StrictDechunk::new();
        d.feed(b"5\r\nhello\r\n").unwrap();
        assert!(d.at_boundary());
        d.feed(b"A\r\n0123456789\r\n0\r\n\r\n").unwrap();
        assert!(d.terminated);
        assert_eq!(d.data, b"hello0123456789");
        assert_eq!(d.chunks, vec![5, 10]);
        assert!(d.feed(b"0").is_err());
    }

    #[test]
    fn strict_rejects() {
        assert!(StrictDechunk::new().feed(b"05\r\n").is_ok());
        assert!(StrictDechunk::new().feed(b"5;x\r\n").is_err());
        assert!(StrictDechunk::new().feed(b"1\r\nab").is_err());
        assert!(StrictDechunk::new().feed(b"\r\n").is_err());
        let mut d = StrictDechunk::new();
        d.feed(b"0\r\n").unwrap();
        assert!(!d.terminated);
        assert!(d.feed(b"x").is_err());
    }

    #[test]
    fn encode_layout() {
        let c = Coding {
            chunks: vec![
                ChunkSpec { len: 2, upper: false, lead_zeros: 1, ext: b";a".to_vec() },
                ChunkSpec { len: 1, upper: true, lead_zeros: 0, ext: vec![] },
            ],
            last_ext: vec![],
            last_zeros: 0,
            trailers: vec![b"x: y".to_vec()],
        };
        let e = encode(&c, b"abc");
        assert_eq!(e.bytes, b"02;a\r\nab\r\n1\r\nc\r\n0\r\nx: y\r\n\r\n");
        assert_eq!(e.chunk_of, vec![0, 0, 1]);
        assert_eq!(e.boundaries, vec![0, 10, 16]);
    }
}
