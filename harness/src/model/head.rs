//! Reference model of HTTP/1.x heads: builders for what a server (or client) puts on the wire, a
//! strict parser for request heads the client emits, and comparison against `http` types.

use std::collections::BTreeMap;
use ureq_proto::http::{HeaderMap, Version};

use crate::infra::tape::Tape;

pub const TOKEN_EXTRA: &[u8] = b"!#$%&'*+-.^_`|~";
pub const ALNUM: &[u8] = b"abcdefghijklmnopqrstuvwxyzABCDEFGHIJKLMNOPQRSTUVWXYZ0123456789";

#[derive(Clone, Debug, PartialEq, Eq)]
pub struct Field {
    /// name as on the wire (any case)
    pub name: Vec<u8>,
    /// value without surrounding whitespace
    pub value: Vec<u8>,
    /// optional whitespace between ':' and the value, and after the value
    pub ows_l: Vec<u8>,
    pub ows_r: Vec<u8>,
}

impl Field {
    pub fn new(name: &str, value: &str) -> Field {
        Field {
            name: name.as_bytes().to_vec(),
            value: value.as_bytes().to_vec(),
            ows_l: b" ".to_vec(),
            ows_r: vec![],
        }
    }
    pub fn line(&self) -> Vec<u8> {
        let mut v = self.name.clone();
        v.push(b':');
        v.extend_from_slice(&self.ows_l);
        v.extend_from_slice(&self.value);
        v.extend_from_slice(&self.ows_r);
        v.extend_from_slice(b"\r\n");
        v
    }
    pub fn lname(&self) -> String {
        String::from_utf8_lossy(&self.name).to_ascii_lowercase()
    }
}

#[derive(Clone, Debug)]
pub struct RespHead {
    pub v11: bool,
    pub status: u16,
    /// None: no space and no reason after the code; Some(r): SP + r (r may be empty)
    pub reason: Option<Vec<u8>>,
    pub fields: Vec<Field>,
}

pub struct Wire {
    pub bytes: Vec<u8>,
    /// end offset (exclusive, after CRLF) of the status/request line and of each field line, in order
    pub line_ends: Vec<usize>,
}

impl RespHead {
    pub fn simple(status: u16, fields: Vec<Field>) -> RespHead {
        RespHead {
            v11: true,
            status,
            reason: Some(b"X".to_vec()),
            fields,
        }
    }

    pub fn version(&self) -> Version {
        if self.v11 {
            Version::HTTP_11
        } else {
            Version::HTTP_10
        }
    }

    pub fn wire(&self) -> Wire {
        let mut bytes = Vec::new();
        let mut line_ends = Vec::new();
        bytes.extend_from_slice(if self.v11 { b"HTTP/1.1 " } else { b"HTTP/1.0 " });
        bytes.extend_from_slice(format!("{:03}", self.status).as_bytes());
        if let Some(r) = &self.reason {
            bytes.push(b' ');
            bytes.extend_from_slice(r);
        }
        bytes.extend_from_slice(b"\r\n");
        line_ends.push(bytes.len());
        for f in &self.fields {
            bytes.extend_from_slice(&f.line());
            line_ends.push(bytes.len());
        }
        bytes.extend_from_slice(b"\r\n");
        Wire { bytes, line_ends }
    }

    pub fn bytes(&self) -> Vec<u8> {
        self.wire().bytes
    }

    pub fn get(&self, lname: &str) -> Option<&Field> {
        self.fields.iter().find(|f| f.lname() == lname)
    }

    pub fn get_all(&self, lname: &str) -> Vec<&Field> {
        self.fields.iter().filter(|f| f.lname() == lname).collect()
    }
}

/// Compare a parsed header map with the expected field list: same number of fields, and for every
/// name the values in order (names lower-cased, values stripped). `HeaderMap` groups by name, so the
/// order across different names is not observable.
pub fn compare_fields(map: &HeaderMap, expected: &[Field]) -> Result<(), String> {
    if map.len() != expected.len() {
        return Err(format!("{} fields reported, {} in the head", map.len(), expected.len()));
    }
    let mut by_name: BTreeMap<String, Vec<&[u8]>> = BTreeMap::new();
    for f in expected {
        by_name.entry(f.lname()).or_default().push(&f.value);
    }
    for (name, vals) in &by_name {
        let got: Vec<&[u8]> = map.get_all(name.as_str()).iter().map(|v| v.as_bytes()).collect();
        if got != *vals {
            return Err(format!(
                "field {:?}: expected values {:?}, got {:?}",
                name,
                vals.iter().map(|v| String::from_utf8_lossy(v).to_string()).collect::<Vec<_>>(),
                got.iter().map(|v| String::from_utf8_lossy(v).to_string()).collect::<Vec<_>>()
            ));
        }
    }
    Ok(())
}

/// Every (name, value) of `map` must be among `allowed`, per name an in-order subsequence.
pub fn fields_subsequence_of(map: &HeaderMap, allowed: &[Field], skip_name: Option<&str>) -> Result<(), String> {
    let mut by_name: BTreeMap<String, Vec<&[u8]>> = BTreeMap::new();
    for f in allowed {
        by_name.entry(f.lname()).or_default().push(&f.value);
    }
    for name in map.keys() {
        if Some(name.as_str()) == skip_name {
            continue;
        }
        let got: Vec<&[u8]> = map.get_all(name).iter().map(|v| v.as_bytes()).collect();
        let empty = vec![];
        let avail = by_name.get(name.as_str()).unwrap_or(&empty);
        let mut j = 0;
        for g in &got {
            while j < avail.len() && avail[j] != *g {
                j += 1;
            }
            if j == avail.len() {
                return Err(format!(
                    "field {}: {:?} is not a field completely present in the input",
                    name,
                    String::from_utf8_lossy(g)
                ));
            }
            j += 1;
        }
    }
    Ok(())
}

// ---------------------------------------------------------------------------------------------
// generators

pub fn gen_token(t: &mut Tape, max: usize, full_alphabet: bool) -> Vec<u8> {
    let n = t.range(1, max.max(1));
    (0..n)
        .map(|_| {
            if full_alphabet && t.chance(15) {
                *t.pick(TOKEN_EXTRA)
            } else {
                *t.pick(ALNUM)
            }
        })
        .collect()
}

/// Field value over visible ASCII, inner SP/HTAB and (optionally) obs-text; never starts or ends
/// with whitespace; may be empty when `allow_empty`.
pub fn gen_value(t: &mut Tape, max: usize, allow_empty: bool, obs: bool) -> Vec<u8> {
    let n = t.small_len(max);
    if n == 0 {
        return if allow_empty { vec![] } else { b"v".to_vec() };
    }
    let mut v: Vec<u8> = Vec::with_capacity(n);
    for i in 0..n {
        let inner = i > 0 && i + 1 < n;
        let b = match t.weighted(&[10, 2, 1, 1]) {
            0 => t.range(0x21, 0x7e) as u8,
            1 if inner => b' ',
            2 if inner => b'\t',
            3 if obs => t.range(0x80, 0xff) as u8,
            _ => b'x',
        };
        v.push(b);
    }
    v
}

pub fn gen_ows(t: &mut Tape) -> Vec<u8> {
    match t.weighted(&[5, 2, 1, 1]) {
        0 => b" ".to_vec(),
        1 => vec![],
        2 => b"\t".to_vec(),
        _ => b" \t ".to_vec(),
    }
}

pub const COMMON_NAMES: &[&str] = &[
    "x-a",
    "Set-Cookie",
    "set-cookie",
    "Server",
    "X-Long-Header-Name-For-Testing",
    "vary",
    "Cache-Control",
    "date",
    "Content-Type",
    "ETag",
];

/// A response head with general-purpose fields only (no framing, no Location, no Connection).
pub fn gen_plain_fields(t: &mut Tape, count: usize, obs: bool) -> Vec<Field> {
    let mut out = Vec::with_capacity(count);
    for _ in 0..count {
        let name = match t.weighted(&[3, 2, 1]) {
            0 => t.pick(COMMON_NAMES).as_bytes().to_vec(),
            1 => {
                let mut n = b"x-".to_vec();
                n.extend(gen_token(t, 12, true));
                n
            }
            _ => {
                // repeat an earlier name (possibly in another case)
                if out.is_empty() {
                    b"x-rep".to_vec()
                } else {
                    let i = t.below(out.len());
                    let f: &Field = &out[i];
                    let mut n = f.name.clone();
                    if t.bool() {
                        n.make_ascii_uppercase();
                    }
                    n
                }
            }
        };
        out.push(Field {
            name,
            value: gen_value(t, 60, true, obs),
            ows_l: gen_ows(t),
            ows_r: if t.chance(20) { gen_ows(t) } else { vec![] },
        });
    }
    out
}

pub fn gen_reason(t: &mut Tape) -> Option<Vec<u8>> {
    match t.weighted(&[5, 1, 1, 1, 1]) {
        0 => Some(b"OK".to_vec()),
        1 => None,
        2 => Some(vec![]),
        3 => Some(vec![b'r'; 200]),
        _ => Some(vec![b'N', 0xe9, b' ', 0xff, b'!']),
    }
}

// ---------------------------------------------------------------------------------------------
// strict parser for emitted request heads

#[derive(Clone, Debug, PartialEq, Eq)]
pub struct ReqHead {
    pub method: String,
    pub target: String,
    pub version: String,
    /// (name as emitted, value bytes)
    pub fields: Vec<(String, Vec<u8>)>,
}

impl ReqHead {
    pub fn values(&self, lname: &str) -> Vec<&[u8]> {
        self.fields
            .iter()
            .filter(|(n, _)| n.eq_ignore_ascii_case(lname))
            .map(|(_, v)| &v[..])
            .collect()
    }
}

fn is_tchar(b: u8) -> bool {
    b.is_ascii_alphanumeric() || TOKEN_EXTRA.contains(&b)
}

/// Strictly parse exactly one request head occupying the whole of `bytes`.
pub fn parse_request_head(bytes: &[u8]) -> Result<ReqHead, String> {
    if !bytes.ends_with(b"\r\n\r\n") {
        return Err("head does not end with an empty line".into());
    }
    let body = &bytes[..bytes.len() - 2]; // keep the CRLF of the last line
    let mut lines: Vec<&[u8]> = Vec::new();
    let mut start = 0;
    let mut i = 0;
    while i < body.len() {
        match body[i] {
            b'\r' => {
                if i + 1 >= body.len() || body[i + 1] != b'\n' {
                    return Err(format!("bare CR at offset {}", i));
                }
                lines.push(&body[start..i]);
                i += 2;
                start = i;
            }
            b'\n' => return Err(format!("bare LF at offset {}", i)),
            _ => i += 1,
        }
    }
    if start != body.len() {
        return Err("unterminated line".into());
    }
    if lines.is_empty() {
        return Err("no request line".into());
    }
    if lines.iter().any(|l| l.is_empty()) {
        return Err("empty line inside the head".into());
    }
    let rl = lines[0];
    let parts: Vec<&[u8]> = rl.split(|b| *b == b' ').collect();
    if parts.len() != 3 {
        return Err(format!("request line {:?} is not 'method SP target SP version'", String::from_utf8_lossy(rl)));
    }
    if parts[0].is_empty() || !parts[0].iter().all(|b| is_tchar(*b)) {
        return Err("method is not a token".into());
    }
    if parts[1].is_empty() || !parts[1].iter().all(|b| (0x21..=0x7e).contains(b)) {
        return Err("request target empty or not visible ASCII".into());
    }
    if parts[2] != b"HTTP/1.0" && parts[2] != b"HTTP/1.1" {
        return Err(format!("version {:?}", String::from_utf8_lossy(parts[2])));
    }
    let mut fields = Vec::new();
    for l in &lines[1..] {
        let colon = l.iter().position(|b| *b == b':').ok_or_else(|| format!("field line without colon: {:?}", String::from_utf8_lossy(l)))?;
        let name = &l[..colon];
        if name.is_empty() || !name.iter().all(|b| is_tchar(*b)) {
            return Err(format!("field name {:?} is not a token", String::from_utf8_lossy(name)));
        }
        let mut value = &l[colon + 1..];
        while let [b' ' | b'\t', rest @ ..] = value {
            value = rest;
        }
        while let [rest @ .., b' ' | b'\t'] = value {
            value = rest;
        }
        if value.iter().any(|b| (*b < 0x20 && *b != b'\t') || *b == 0x7f) {
            return Err("control character in field value".into());
        }
        fields.push((String::from_utf8_lossy(name).to_string(), value.to_vec()));
    }
    Ok(ReqHead {
        method: String::from_utf8_lossy(parts[0]).to_string(),
        target: String::from_utf8_lossy(parts[1]).to_string(),
        version: String::from_utf8_lossy(parts[2]).to_string(),
        fields,
    })
}

#[cfg(test)]
mod test {
    use super::*;

    #[test]
    fn strict_request_head() {
        let h = parse_request_head(b"GET /a?b HTTP/1.1\r\nhost: x.test\r\nA: \xff b\r\n\r\n").unwrap();
        assert_eq!(h.method, "GET");
        assert_eq!(h.target, "/a?b");
        assert_eq!(h.fields.len(), 2);
        assert_eq!(h.values("a"), vec![&b"\xff b"[..]]);
        assert!(parse_request_head(b"GET / HTTP/1.1\r\n\r\n").is_ok());
        assert!(parse_request_head(b"GET / HTTP/1.1\r\n").is_err());
        assert!(parse_request_head(b"GET / HTTP/1.1\r\n\r\n\r\n").is_err());
        assert!(parse_request_head(b"GET  / HTTP/1.1\r\n\r\n").is_err());
        assert!(parse_request_head(b"GET / HTTP/2.0\r\n\r\n").is_err());
        assert!(parse_request_head(b"GET / HTTP/1.1\r\na b: c\r\n\r\n").is_err());
        assert!(parse_request_head(b"GET / HTTP/1.1\r\nab\r\n\r\n").is_err());
        assert!(parse_request_head(b"GET / HTTP/1.1\r\na: b\nc: d\r\n\r\n").is_err());
    }

    #[test]
    fn resp_wire() {
        let h = RespHead { v11: false, status: 204, reason: None, fields: vec![Field::new("A", "b")] };
        let w = h.wire();
        assert_eq!(w.bytes, b"HTTP/1.0 204\r\nA: b\r\n\r\n");
        assert_eq!(w.line_ends, vec![14, 20]);
    }
}
