//! RFC 3986 section 5 reference resolution (the trusted reference for C14), written from the RFC's
//! pseudo code, plus the scheme-based normalisations that are semantically neutral for http(s).

#[derive(Clone, Debug, PartialEq, Eq, Default)]
pub struct Parts {
    pub scheme: Option<String>,
    pub authority: Option<String>,
    pub path: String,
    pub query: Option<String>,
    pub fragment: Option<String>,
}

/// Appendix B: ^(([^:/?#]+):)?(//([^/?#]*))?([^?#]*)(\?([^#]*))?(#(.*))?
pub fn parse(s: &str) -> Parts {
    let mut rest = s;
    let mut scheme = None;
    if let Some(i) = rest.find(|c| c == ':' || c == '/' || c == '?' || c == '#') {
        if rest.as_bytes()[i] == b':' && i > 0 {
            scheme = Some(rest[..i].to_string());
            rest = &rest[i + 1..];
        }
    }
    let mut authority = None;
    if let Some(r) = rest.strip_prefix("//") {
        let end = r.find(|c| c == '/' || c == '?' || c == '#').unwrap_or(r.len());
        authority = Some(r[..end].to_string());
        rest = &r[end..];
    }
    let pend = rest.find(|c| c == '?' || c == '#').unwrap_or(rest.len());
    let path = rest[..pend].to_string();
    rest = &rest[pend..];
    let mut query = None;
    if let Some(r) = rest.strip_prefix('?') {
        let end = r.find('#').unwrap_or(r.len());
        query = Some(r[..end].to_string());
        rest = &r[end..];
    }
    let fragment = rest.strip_prefix('#').map(|f| f.to_string());
    Parts { scheme, authority, path, query, fragment }
}

/// 5.2.4
pub fn remove_dot_segments(p: &str) -> String {
    let mut input = p.to_string();
    let mut out = String::new();
    fn pop_last(out: &mut String) {
        match out.rfind('/') {
            Some(i) => out.truncate(i),
            None => out.clear(),
        }
    }
    while !input.is_empty() {
        if input.starts_with("../") {
            input.drain(..3);
        } else if input.starts_with("./") {
            input.drain(..2);
        } else if input.starts_with("/./") {
            input.drain(..2);
        } else if input == "/." {
            input = "/".to_string();
        } else if input.starts_with("/../") {
            input.drain(..3);
            pop_last(&mut out);
        } else if input == "/.." {
            input = "/".to_string();
            pop_last(&mut out);
        } else if input == "." || input == ".." {
            input.clear();
        } else {
            let start = if input.starts_with('/') { 1 } else { 0 };
            let end = input[start..].find('/').map(|i| i + start).unwrap_or(input.len());
            out.push_str(&input[..end]);
            input.drain(..end);
        }
    }
    out
}

/// 5.2.2 (strict) with 5.2.3 merge
pub fn resolve(base: &Parts, r: &Parts) -> Parts {
    let mut t = Parts::default();
    if r.scheme.is_some() {
        t.scheme = r.scheme.clone();
        t.authority = r.authority.clone();
        t.path = remove_dot_segments(&r.path);
        t.query = r.query.clone();
    } else {
        if r.authority.is_some() {
            t.authority = r.authority.clone();
            t.path = remove_dot_segments(&r.path);
            t.query = r.query.clone();
        } else {
            if r.path.is_empty() {
                t.path = base.path.clone();
                t.query = if r.query.is_some() { r.query.clone() } else { base.query.clone() };
            } else {
                if r.path.starts_with('/') {
                    t.path = remove_dot_segments(&r.path);
                } else {
                    let merged = if base.authority.is_some() && base.path.is_empty() {
                        format!("/{}", r.path)
                    } else {
                        match base.path.rfind('/') {
                            Some(i) => format!("{}{}", &base.path[..=i], r.path),
                            None => r.path.clone(),
                        }
                    };
                    t.path = remove_dot_segments(&merged);
                }
                t.query = r.query.clone();
            }
            t.authority = base.authority.clone();
        }
        t.scheme = base.scheme.clone();
    }
    t.fragment = r.fragment.clone();
    t
}

/// 5.3 recomposition
pub fn recompose(t: &Parts) -> String {
    let mut s = String::new();
    if let Some(x) = &t.scheme {
        s.push_str(x);
        s.push(':');
    }
    if let Some(x) = &t.authority {
        s.push_str("//");
        s.push_str(x);
    }
    s.push_str(&t.path);
    if let Some(x) = &t.query {
        s.push('?');
        s.push_str(x);
    }
    if let Some(x) = &t.fragment {
        s.push('#');
        s.push_str(x);
    }
    s
}

/// The request URI a client derives from a resolved http(s) target: fragment dropped, scheme and host
/// lower-cased, default port elided, empty path -> "/", dot segments removed (6.2.2.3, 6.2.3).
#[derive(Clone, Debug, PartialEq, Eq)]
pub struct HttpTarget {
    pub scheme: String,
    pub host: String,
    pub port: Option<u16>,
    pub path: String,
    pub query: Option<String>,
}

impl HttpTarget {
    pub fn from_parts(t: &Parts) -> Option<HttpTarget> {
        let scheme = t.scheme.as_ref()?.to_ascii_lowercase();
        let auth = t.authority.as_ref()?.to_ascii_lowercase();
        let (host, port) = match auth.rfind(':') {
            Some(i) if auth[i + 1..].chars().all(|c| c.is_ascii_digit()) => {
                let p = &auth[i + 1..];
                (auth[..i].to_string(), if p.is_empty() { None } else { Some(p.parse::<u32>().ok()?) })
            }
            _ => (auth.clone(), None),
        };
        let default = if scheme == "http" { 80 } else { 443 };
        let port = match port {
            Some(p) if p == default => None,
            Some(p) if p > 65535 => return None,
            Some(p) => Some(p as u16),
            None => None,
        };
        let mut path = remove_dot_segments(&t.path);
        if path.is_empty() {
            path = "/".to_string();
        }
        Some(HttpTarget { scheme, host, port, path, query: t.query.clone() })
    }

    pub fn to_uri_string(&self) -> String {
        let mut s = format!("{}://{}", self.scheme, self.host);
        if let Some(p) = self.port {
            s.push_str(&format!(":{}", p));
        }
        s.push_str(&self.path);
        if let Some(q) = &self.query {
            s.push('?');
            s.push_str(q);
        }
        s
    }

    pub fn path_and_query(&self) -> String {
        match &self.query {
            Some(q) => format!("{}?{}", self.path, q),
            None => self.path.clone(),
        }
    }

    /// back to Parts (the base of the next hop)
    pub fn to_parts(&self) -> Parts {
        parse(&self.to_uri_string())
    }
}

#[cfg(test)]
mod test {
    use super::*;

    #[test]
    fn rfc_5_4_examples() {
        let base = parse("http://a/b/c/d;p?q");
        let table = [
            // 5.4.1 normal
            ("g:h", "g:h"), ("g", "http://a/b/c/g"), ("./g", "http://a/b/c/g"), ("g/", "http://a/b/c/g/"), ("/g", "http://a/g"),
            ("//g", "http://g"), ("?y", "http://a/b/c/d;p?y"), ("g?y", "http://a/b/c/g?y"), ("#s", "http://a/b/c/d;p?q#s"),
            ("g#s", "http://a/b/c/g#s"), ("g?y#s", "http://a/b/c/g?y#s"), (";x", "http://a/b/c/;x"), ("g;x", "http://a/b/c/g;x"),
            ("g;x?y#s", "http://a/b/c/g;x?y#s"), ("", "http://a/b/c/d;p?q"), (".", "http://a/b/c/"), ("./", "http://a/b/c/"),
            ("..", "http://a/b/"), ("../", "http://a/b/"), ("../g", "http://a/b/g"), ("../..", "http://a/"), ("../../", "http://a/"),
            ("../../g", "http://a/g"),
            // 5.4.2 abnormal
            ("../../../g", "http://a/g"), ("../../../../g", "http://a/g"), ("/./g", "http://a/g"), ("/../g", "http://a/g"),
            ("g.", "http://a/b/c/g."), (".g", "http://a/b/c/.g"), ("g..", "http://a/b/c/g.."), ("..g", "http://a/b/c/..g"),
            ("./../g", "http://a/b/g"), ("./g/.", "http://a/b/c/g/"), ("g/./h", "http://a/b/c/g/h"), ("g/../h", "http://a/b/c/h"),
            ("g;x=1/./y", "http://a/b/c/g;x=1/y"), ("g;x=1/../y", "http://a/b/c/y"), ("g?y/./x", "http://a/b/c/g?y/./x"),
            ("g?y/../x", "http://a/b/c/g?y/../x"), ("g#s/./x", "http://a/b/c/g#s/./x"), ("g#s/../x", "http://a/b/c/g#s/../x"),
        ];
        for (r, e) in table {
            assert_eq!(recompose(&resolve(&base, &parse(r))), e, "reference {:?}", r);
        }
    }

    #[test]
    fn http_target_normalisation() {
        let t = HttpTarget::from_parts(&parse("HTTP://A.Test:80/a/./b/../c?x#f")).unwrap();
        assert_eq!(t.to_uri_string(), "http://a.test/a/c?x");
        let t = HttpTarget::from_parts(&parse("https://a.test:443")).unwrap();
        assert_eq!(t.to_uri_string(), "https://a.test/");
        let t = HttpTarget::from_parts(&parse("https://a.test:80")).unwrap();
        assert_eq!(t.to_uri_string(), "https://a.test:80/");
    }
}
