//! RFC 9112 section 6.3 message-body-length table, as worded by property C06.

use ureq_proto::http::Method;

#[derive(Clone, Copy, Debug, PartialEq, Eq)]
pub enum Framing {
    None,
    Chunked,
    Length(u64),
    Close,
}

#[derive(Clone, Copy, Debug, PartialEq, Eq)]
pub enum ClClass {
    Absent,
    Num(u64),
    /// numeric but above u64::MAX: not representable, don't-care
    TooBig,
    /// comma list of identical valid values: error or that value (recipient's choice)
    ListOfSame(u64),
    Bad,
}

pub const CL_VALUES: [(&str, ClClass); 17] = [
    ("", ClClass::Absent), // absent is encoded by index 0
    ("0", ClClass::Num(0)),
    ("7", ClClass::Num(7)),
    ("007", ClClass::Num(7)),
    ("18446744073709551615", ClClass::Num(u64::MAX)),
    ("18446744073709551616", ClClass::TooBig),
    ("abc", ClClass::Bad),
    ("-1", ClClass::Bad),
    ("1.5", ClClass::Bad),
    ("", ClClass::Bad), // present with an empty value (index 9)
    ("7 7", ClClass::Bad),
    ("0x10", ClClass::Bad),
    // comma lists: a list of identical valid values may be accepted (RFC 9112 6.3), anything else is invalid
    ("7, 7", ClClass::ListOfSame(7)),
    ("7, abc", ClClass::Bad),
    ("abc, 7", ClClass::Bad),
    ("7,", ClClass::Bad),
    ("7, 8", ClClass::Bad),
];

/// (value, declares chunked, present)
pub const TE_VALUES: [(&str, bool); 13] = [
    ("", false), // absent (index 0)
    ("chunked", true),
    ("Chunked", true),
    ("CHUNKED", true),
    ("gzip, chunked", true),
    ("gzip,chunked", true),
    ("gzip", false),
    ("identity", false),
    ("chunkedx", false),
    ("xchunked", false),
    ("deflate, gzip", false),
    // a coding list spread over two field lines (a line feed separates the lines here): field lines of one name are one list
    // (RFC 9110 5.3), so this response declares the codings gzip, chunked - a coding list ending in chunked
    ("gzip\nchunked", true),
    ("gzip, deflate\nChunked", true),
];

/// The field lines a TE_VALUES entry stands for.
pub fn te_lines(idx: usize) -> Vec<&'static str> {
    TE_VALUES[idx].0.split('\n').collect()
}

#[derive(Debug)]
pub enum Expect {
    Err,
    Is(Framing),
    /// statement leaves it open: any of these
    OneOf(&'static [Framing]),
    Any,
}

/// RFC 9112 section 6.3 as stated by the property.
pub fn framing_table(method: &Method, status: u16, resp_v11: bool, cl: ClClass, te_present: bool, te_chunked: bool) -> Expect {
    if status == 100 {
        // interim: owned by C11. Whether an interim 100 that carries fields - even a nonsensical Content-Length - is an error, is
        // skipped or is handed to the caller is stated nowhere; all status-100 cells are don't-care
        return Expect::Any;
    }
    if cl == ClClass::Bad {
        return Expect::Err;
    }
    if cl == ClClass::TooBig {
        return Expect::Any;
    }
    if let ClClass::ListOfSame(_) = cl {
        return Expect::Any;
    }
    let no_body = *method == Method::HEAD
        || (*method == Method::CONNECT && (200..300).contains(&status))
        || (100..200).contains(&status)
        || status == 204
        || status == 304;
    if no_body {
        return Expect::Is(Framing::None);
    }
    if resp_v11 && te_chunked {
        return Expect::Is(Framing::Chunked);
    }
    if let ClClass::Num(n) = cl {
        return Expect::Is(Framing::Length(n));
    }
    if (300..400).contains(&status) {
        // a redirect without any framing header has no body; with a Transfer-Encoding field that does not
        // frame (other codings, or chunked on HTTP/1.0) the statement leaves it open
        if te_present {
            return Expect::OneOf(&[Framing::None, Framing::Close]);
        }
        return Expect::Is(Framing::None);
    }
    Expect::Is(Framing::Close)
}

