pub mod chunk;
pub mod head;
