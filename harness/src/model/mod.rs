pub mod chunk;
