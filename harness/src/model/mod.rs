pub mod chunk;
pub mod head;
pub mod request;
