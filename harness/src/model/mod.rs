pub mod chunk;
pub mod framing;
pub mod head;
pub mod request;
pub mod rfc3986;
