//! Request specifications and the model of the *effective* request head.

use ureq_proto::http::{HeaderValue, Method, Request, Version};

use crate::infra::tape::Tape;
use crate::model::head::{gen_token, gen_value};

#[derive(Clone, Debug)]
pub struct ReqSpec {
    pub method: Method,
    pub v10: bool,
    pub scheme: &'static str,
    pub host: String,
    pub port: Option<u16>,
    /// "" or "/seg/seg"
    pub path: String,
    pub query: Option<String>,
    /// original headers in insertion order (names in any case)
    pub orig: Vec<(String, Vec<u8>)>,
}

impl ReqSpec {
    pub fn uri_string(&self) -> String {
        let mut s = format!("{}://{}", self.scheme, self.host);
        if let Some(p) = self.port {
            s.push_str(&format!(":{}", p));
        }
        s.push_str(&self.path);
        if let Some(q) = &self.query {
            s.push('?');
            s.push_str(q);
        }
        s
    }

    /// path-and-query as it must appear in the request line
    pub fn target(&self) -> String {
        let mut s = if self.path.is_empty() { "/".to_string() } else { self.path.clone() };
        if let Some(q) = &self.query {
            s.push('?');
            s.push_str(q);
        }
        s
    }

    pub fn version(&self) -> Version {
        if self.v10 {
            Version::HTTP_10
        } else {
            Version::HTTP_11
        }
    }

    pub fn build(&self) -> Result<Request<()>, String> {
        let mut b = Request::builder().method(self.method.clone()).uri(self.uri_string()).version(self.version());
        for (k, v) in &self.orig {
            b = b.header(k.as_str(), HeaderValue::from_bytes(v).map_err(|e| format!("value {:?}: {}", String::from_utf8_lossy(v), e))?);
        }
        b.body(()).map_err(|e| format!("request builder: {}", e))
    }

    pub fn has_orig(&self, lname: &str) -> bool {
        self.orig.iter().any(|(k, _)| k.eq_ignore_ascii_case(lname))
    }
}

pub const HOSTS: [&str; 5] = ["a.test", "b.test", "c.test", "sub.a.test", "xn--bcher-kva.test"];

pub fn gen_segment(t: &mut Tape) -> String {
    let n = t.range(1, 6);
    let mut s: String = (0..n).map(|_| *t.pick(b"abcxyzABC019-._~") as char).collect();
    if s == "." || s == ".." {
        s = "d".into();
    }
    s
}

pub fn gen_query(t: &mut Tape) -> String {
    let n = t.range(0, 8);
    (0..n).map(|_| *t.pick(b"abc019=&-._~;,") as char).collect()
}

/// An absolute http(s) URI split in parts; never an empty path together with a query.
pub fn gen_uri_parts(t: &mut Tape) -> (&'static str, String, Option<u16>, String, Option<String>) {
    let scheme = if t.chance(35) { "https" } else { "http" };
    let host = t.pick(&HOSTS).to_string();
    let port = match t.weighted(&[5, 1, 1, 1]) {
        0 => None,
        1 => Some(8080),
        2 => Some(if scheme == "http" { 80 } else { 443 }),
        _ => Some(t.range(1, 65535) as u16),
    };
    let nseg = t.weighted(&[2, 3, 2, 1, 1]);
    let mut path = String::new();
    for _ in 0..nseg {
        path.push('/');
        path.push_str(&gen_segment(t));
    }
    if nseg > 0 && t.chance(20) {
        path.push('/');
    }
    let query = if t.chance(35) {
        if path.is_empty() {
            path.push('/');
        }
        Some(gen_query(t))
    } else {
        None
    };
    (scheme, host, port, path, query)
}

pub const NAME_POOL: [&str; 12] = [
    "accept",
    "Accept",
    "user-agent",
    "X-Trace-Id",
    "accept-encoding",
    "x-a",
    "x-a",
    "Cache-Control",
    "referer",
    "X-UPPER",
    "if-none-match",
    "te",
];

/// A general-purpose header (never host / framing / connection / expect / credentials).
pub fn gen_plain_header(t: &mut Tape, earlier: &[(String, Vec<u8>)], obs: bool) -> (String, Vec<u8>) {
    let name = match t.weighted(&[4, 2, 2]) {
        0 => t.pick(&NAME_POOL).to_string(),
        1 => format!("x-{}", String::from_utf8_lossy(&gen_token(t, 10, true))),
        _ => {
            if earlier.is_empty() {
                "x-rep".to_string()
            } else {
                let i = t.below(earlier.len());
                let mut n = earlier[i].0.clone();
                if t.bool() {
                    n = n.to_ascii_uppercase();
                }
                n
            }
        }
    };
    let name = if is_reserved_name(&name) { "x-rep".to_string() } else { name };
    (name, gen_value(t, 40, true, obs))
}

pub fn is_reserved_name(n: &str) -> bool {
    ["host", "content-length", "transfer-encoding", "expect", "connection", "cookie", "authorization"].iter().any(|r| n.eq_ignore_ascii_case(r))
}
