#!/usr/bin/env python3
"""Regenerates /verif/MANIFEST.json from the table below (one source of truth, always schema-valid)."""
import json, os, sys

HERE = os.path.dirname(os.path.dirname(os.path.abspath(__file__)))

# id -> (technique, level text, level note, design section)
CHECKS = {
    "C01": ("proptest generated exchange lists x generated I/O schedules; metamorphic (one-shot vs scheduled observation) + ground truth from the stream builder; thorough: coverage-guided (libFuzzer) search over the same choice tapes, same decoder and oracle",
            "each generated exchange list (1..3 responses on one stream, redirects followed) is run one-shot against the generator's ground truth and again under 1..3 generated schedules (persistent trickle / tiny-buffer styles) whose observation must be identical field by field, including the exact number of server bytes consumed",
            "trusted: stream builder (head model, chunk encoder), framing table, strict request-head parser and chunk decoder"),
    "C09": ("enumerated configuration x server-behaviour menu with every accessor called at every step + proptest histories with premature advance attempts; state-graph model; enumerated requests of every validity class (readiness <=> advancing, no panic); thorough: coverage-guided (libFuzzer) search over the same choice tapes, same decoder and oracle",
            "37800-cell menu + 6804 requests of every validity class under the canonical schedule (all read-only calls interleaved, redirects followed and the followed flow run to completion) plus random histories with premature proceed() attempts in every state",
            "trusted: successor model (body due / Expect / refusal / framing table / 3xx), exchange driver"),
    "C10": ("exhaustive enumeration of the close-condition product (145152 cells, second hop followed), of truncated 3xx heads (360) and of repeated interim responses (432) + proptest decorated exchanges; verdict formula oracle; thorough: coverage-guided (libFuzzer) search over the same choice tapes, same decoder and oracle",
            "complete over request version x Connection x method x Expect outcome x response version x status x framing x response Connection; Redirect and Cleanup compared",
            "trusted: five-condition formula as stated; the reason text of each condition is learnt from five single-condition exchanges of the implementation itself"),
    "C11": ("proptest generated handshakes x every look-prefix length; per-window oracle + ground truth of the remaining exchange; thorough: coverage-guided (libFuzzer) search over the same choice tapes, same decoder and oracle",
            "for every prefix length of every generated interim/final head a fresh flow is driven through Await100 and on to Cleanup in the branch the model prescribes",
            "trusted: head model, exchange ground truth"),
    "C12": ("bounded-exhaustive strings over protocol alphabets after valid prefixes + proptest grammar-aware mutants of valid exchanges + coverage-guided libFuzzer on raw server bytes and on the mutant generator's choice tapes (thorough); crash/overflow + count/subsequence oracle inside the driver",
            "all strings up to length 6 (7) over a 10-symbol alphabet in 14 protocol states, 200k (30M) mutated exchanges (14 mutation kinds incl. list-shaped field values), and a libFuzzer campaign (8 workers x 1.5M runs) with dictionary and seed corpus, all through one tolerant driver with overflow checks on",
            "trusted: tolerant driver; hang = bounded loops + watchdog (exit 2)"),
    "C02": ("proptest generated requests (headers, redirect depth, APIs) + generated buffer-size schedules; strict-parse round trip against an effective-request model; metamorphic one-shot vs scheduled emission; thorough: coverage-guided (libFuzzer) search over the same choice tapes, same decoder and oracle",
            "each generated request is emitted one-shot and again under a schedule aimed at line boundaries; the head is parsed by a strict parser and compared field by field with the model, and the body actually sent is checked against the announced framing",
            "trusted: strict request-head parser, effective-request model (redirect suppression, automatic Host / framing)"),
    "C13": ("exhaustive enumeration of all redirect chains of length <= 2 over the origin/form/policy pool (889k chains, caller-added credentials on every third hop, a body sent despite the method on every fifth followed flow, Transfer-Encoding next to Content-Length on one original in seven) + proptest chains of 3..4 hops; credential-policy oracle from the generator's structure; thorough: coverage-guided (libFuzzer) search over the same choice tapes, same decoder and oracle",
            "complete for chains up to 2 hops over 24 origins x 4 Location forms x 2 policies; random for longer chains",
            "trusted: structural target model (form semantics), strict request-head parser"),
    "C14": ("proptest redirect chains with grammar-generated Locations; differential against an RFC 3986 section 5 reference resolver; RFC 5.4 tables and error-class tables enumerated; thorough: coverage-guided (libFuzzer) search over the same choice tapes, same decoder and oracle",
            "the reference resolver is written from the RFC pseudo code and validated on the RFC's own examples; chains make hop k+1 resolve against hop k and start from seven shapes of original request (methods, Expect, bodies); an answer other than a new flow is asked for twice; 15 % of the original requests carry an explicit Host, which must not travel to another host",
            "trusted: model/rfc3986.rs; domain restricted to where RFC 3986 and WHATWG URL agree (DESIGN section 7)"),
    "C16": ("proptest redirected flows (depth 0..3) with caller-added headers aimed at the suppressed names; strict-parse round trip; thorough: coverage-guided (libFuzzer) search over the same choice tapes, same decoder and oracle",
            "same machinery as C02 with the generator aimed at the combination redirect -> add -> serialise",
            "trusted: strict request-head parser, effective-request model"),
    "C03": ("proptest stateful histories (vec of ops + interpreter) against an incremental strict chunk decoder + exhaustive small grid over 16 ways of reaching the body state; thorough: coverage-guided (libFuzzer) search over the same choice tapes, same decoder and oracle",
            "every call of a generated write history is fed to a reference decoder; invariant checked after every step; the (input, output, finish-output) grid is enumerated completely for small sizes",
            "trusted: harness strict chunk decoder; both public APIs (Flow<SendBody>, Call<WithBody>)"),
    "C04": ("proptest stateful histories against a reference counter model + exhaustive small-scope histories; body state reached directly, through Await100, or by despite-method with an added Content-Length; thorough: coverage-guided (libFuzzer) search over the same choice tapes, same decoder and oracle",
            "three operations (write, direct-write report, overshoot) interleaved at random with boundary-aimed lengths; a reference counter decides every result; N<=4 x all 4-op histories enumerated",
            "trusted: 10-line counter model; both public APIs"),
    "C05": ("proptest generated heads x every prefix length; exact-parse oracle from the generator's structure; known finding by computed signature; thorough: coverage-guided (libFuzzer) search over the same choice tapes, same decoder and oracle",
            "every strict prefix of every generated head (<= 600 bytes) is offered to the parser, a Call and a Flow; the full head must parse back to exactly the generated status/version/fields",
            "trusted: harness head builder; HeaderMap order is compared per name"),
    "C06": ("exhaustive enumeration of the framing decision table (3.6M cells, incl. coding lists spread over two Transfer-Encoding lines) + proptest decorated heads + proptest request paths through the exchange driver; table oracle from RFC 9112 6.3 as worded in the property; thorough: coverage-guided (libFuzzer) search over the same choice tapes, same decoder and oracle",
            "the whole (method, status, version, Content-Length class, Transfer-Encoding class) table is enumerated on both APIs; cells the statement leaves open are explicit don't-cares; the same cells are reached after every Expect outcome, with HTTP/1.0 requests and with a body sent despite the method",
            "trusted: 25-line framing table; Call body mode identified by a probe read"),
    "C07": ("bounded-exhaustive enumeration (all cut sets of short codings; all single/double structural cuts of the small-scope grammar) + proptest random codings/schedules; enumerated chunk sizes beyond 32/63 bits; round-trip against the encoder's ground truth; thorough: coverage-guided (libFuzzer) search over the same choice tapes, same decoder and oracle",
            "small-scope hypothesis: every arrival composition of every coding up to 16 (19) bytes and every pair of structural cuts of the stated grammar, under 27 buffer/boundary-stop modes; random beyond; the body state reached on five routes (plain, late 100, 100 seen, refused Expect, HTTP/1.0 request)",
            "trusted: harness chunk encoder (ground truth: payload, chunk map, boundaries)"),
    "C08": ("proptest read histories against a reference counter + exhaustive small-scope schedules; eight routes to the head (late / seen 100, head cut in the middle or 1..3 bytes before its end), empty-valued fields, redirect bodies, close conditions; thorough: coverage-guided (libFuzzer) search over the same choice tapes, same decoder and oracle",
            "(arrival, buffer) histories with windows reaching into a following response; every read is decided by min(window, space, remaining)",
            "trusted: counter model; bodies > 80000 bytes only partially materialised"),
    "C15": ("exhaustive enumeration of the redirect method table (21600 cells over three request paths) and of its variants (11520 cells: request version, own Content-Length, same-URI Locations, second hop)",
            "all 9 methods x all 100 3xx statuses x both policies x body/no body x Location present/absent x request path; complete for the stated domain, plus a second hop whose method is the one the first hop produced",
            "trusted: the table as worded in the property"),
    "C17": ("exhaustive enumeration of the request-validity table (38160 cells, both APIs; 5760 redirected requests incl. what the caller adds to the followed flow) + proptest near-valid requests; thorough: coverage-guided (libFuzzer) search over the same choice tapes, same decoder and oracle",
            "complete over the stated configuration menu; random stage balances accepted and rejected requests",
            "trusted: validity table as worded in the property; strict request head parser"),
    "C20": ("proptest generated request/response heads x limits {0,1,4,128} x every prefix length; exact-parse oracle; thorough: coverage-guided (libFuzzer) search over the same choice tapes, same decoder and oracle",
            "every strict prefix of every generated head, for all three public parsers, field counts aimed at N and N+1",
            "trusted: harness head builder"),
    "C18": ("exhaustive enumeration of n + proptest random large n; round-trip through a strict reference chunk decoder; thorough: coverage-guided (libFuzzer) search over the same choice tapes, same decoder and oracle",
            "every output length 0..=30808 (chunked, length-delimited, HTTP/1.0, and twelve further request shapes / routes rotating with n; after a refused direct-write report; pairs of questions up to 2^40) is enumerated completely, larger n sampled: the formula and the writer are tied together by performing the write and decoding it",
            "trusted: harness strict chunk decoder; public Flow API only"),
    "C19": ("enumerated (output, input-ladder) grid + proptest whole-body loops and write histories; metamorphic monotonicity + strict chunk round-trip; thorough: coverage-guided (libFuzzer) search over the same choice tapes, same decoder and oracle",
            "all outputs 6..=11000, and outputs around k full chunks (k up to 100/200) and around 2^15..2^21, x an input ladder around every boundary, on both APIs; monotonicity in the input length and progress >= advertised maximum are checked pairwise",
            "trusted: harness strict chunk decoder; fresh sender per pair"),
}

NOT_YET = {}

def main():
    props = [json.loads(l) for l in open(os.path.join(HERE, "properties.jsonl"))]
    checks = []
    na = []
    for p in props:
        pid = p["id"]
        if pid in CHECKS:
            tech, text, note = CHECKS[pid]
            checks.append({
                "property_id": pid,
                "quick_cmd": f"./check {pid} --tier quick",
                "thorough_cmd": f"./check {pid} --tier thorough",
                "evidence_file": f"/verif/evidence/{pid}.json",
                "replay_cmd_template": f"./check {pid} --replay {{path}}",
                "engine": "hootverif",
                "level_claimed": {"category": "exploration", "text": text, "design_ref": f"DESIGN.md section 7, {pid}"},
                "level_note": note,
                "technique": tech,
            })
        else:
            na.append({"property_id": pid, "reason": NOT_YET.get(pid, "check not built yet (work in progress); the technique applies, see DESIGN.md section 7")})
    m = {
        "version": 1,
        "setup_cmd": "./check --build",
        "hooks": {
            "guard": "none (no hooks: every check observes through the public API of ureq-proto)",
            "enable": "not applicable; checks build /repo as an unmodified path dependency (harness/Cargo.toml), with overflow-checks and debug-assertions on for the ureq-proto package only",
            "baseline_off_cmd": "cd /repo && cargo test --workspace --no-fail-fast --offline",
            "source_commits": [],
            "add_only": True,
        },
        "engines": [{
            "name": "hootverif",
            "path": "harness/",
            "serves_properties": sorted(CHECKS.keys()),
            "kind_free_text": "Rust harness: choice-tape generators driven and shrunk by proptest 1.11, index-enumerated finite domains, reference models (strict head parser, strict chunk codec, RFC 9112 framing table, RFC 3986 resolver, state graph), replay files; two libFuzzer targets: raw server bytes for C12, and a generic one that mutates the choice tape of any random stage (thorough tier of every property with a random stage)",
        }],
        "checks": checks,
        "notes": "Entry point ./check <ID> --tier quick|thorough [--replay FILE]; VERIF_SEED seeds every random stage; exit 0 held / 1 VIOLATION / 2 inconclusive (build failure, watchdog). Known findings: KNOWN_FINDINGS.txt.",
    }
    # every listed property is claimed; the list is kept (empty) so that its state is explicit
    m["not_applicable"] = na
    json.dump(m, open(os.path.join(HERE, "MANIFEST.json"), "w"), indent=1)
    print(f"MANIFEST.json: {len(checks)} checks, {len(na)} not claimed")

if __name__ == "__main__":
    main()
