#!/usr/bin/env python3
"""Regenerates /verif/MANIFEST.json from the table below (one source of truth, always schema-valid)."""
import json, os, sys

HERE = os.path.dirname(os.path.dirname(os.path.abspath(__file__)))

# id -> (technique, level text, level note, design section)
CHECKS = {
    "C18": ("exhaustive enumeration of n + proptest random large n; round-trip through a strict reference chunk decoder",
            "every output length 0..=30808 (both framings) is enumerated completely, larger n sampled: the formula and the writer are tied together by performing the write and decoding it",
            "trusted: harness strict chunk decoder; public Flow API only"),
    "C19": ("enumerated (output, input-ladder) grid + proptest whole-body loops; metamorphic monotonicity + strict chunk round-trip",
            "all outputs 6..=11000 x an input ladder around every boundary, on both APIs; monotonicity in the input length and progress >= advertised maximum are checked pairwise",
            "trusted: harness strict chunk decoder; fresh sender per pair"),
}

NOT_YET = {}

def main():
    props = [json.loads(l) for l in open(os.path.join(HERE, "properties.jsonl"))]
    checks = []
    na = []
    for p in props:
        pid = p["id"]
        if pid in CHECKS:
            tech, text, note = CHECKS[pid]
            checks.append({
                "property_id": pid,
                "quick_cmd": f"./check {pid} --tier quick",
                "thorough_cmd": f"./check {pid} --tier thorough",
                "evidence_file": f"/verif/evidence/{pid}.json",
                "replay_cmd_template": f"./check {pid} --replay {{path}}",
                "engine": "hootverif",
                "level_claimed": {"category": "exploration", "text": text, "design_ref": f"DESIGN.md section 7, {pid}"},
                "level_note": note,
                "technique": tech,
            })
        else:
            na.append({"property_id": pid, "reason": NOT_YET.get(pid, "check not built yet (work in progress); the technique applies, see DESIGN.md section 7")})
    m = {
        "version": 1,
        "setup_cmd": "./check --build",
        "hooks": {
            "guard": "none (no hooks: every check observes through the public API of ureq-proto)",
            "enable": "not applicable; checks build /repo as an unmodified path dependency (harness/Cargo.toml), with overflow-checks and debug-assertions on for the ureq-proto package only",
            "baseline_off_cmd": "cd /repo && cargo test --workspace --no-fail-fast --offline",
            "source_commits": [],
            "add_only": True,
        },
        "engines": [{
            "name": "hootverif",
            "path": "harness/",
            "serves_properties": sorted(CHECKS.keys()),
            "kind_free_text": "Rust harness: choice-tape generators driven and shrunk by proptest 1.11, index-enumerated finite domains, reference models (strict head parser, strict chunk codec, RFC 9112 framing table, RFC 3986 resolver, state graph), replay files; libFuzzer target for C12",
        }],
        "checks": checks,
        "notes": "Entry point ./check <ID> --tier quick|thorough [--replay FILE]; VERIF_SEED seeds every random stage; exit 0 held / 1 VIOLATION / 2 inconclusive (build failure, watchdog). Known findings: KNOWN_FINDINGS.txt.",
    }
    if na:
        m["not_applicable"] = na
    json.dump(m, open(os.path.join(HERE, "MANIFEST.json"), "w"), indent=1)
    print(f"MANIFEST.json: {len(checks)} checks, {len(na)} not claimed")

if __name__ == "__main__":
    main()
