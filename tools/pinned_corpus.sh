#!/bin/bash
# Regression corpus from the pinned tree: run every check against the pinned commit (scratch worktree), keep the shrunk
# reproductions under corpus/<id>/pinned-*.json. They pass on the repaired tree and fail again if a defect returns.
PINNED="${1:-/tmp/hoot-pinned}"
cd "$(dirname "$0")/.."
for id in $(./harness/target/release/check --list); do
    MUT_OUT=/tmp/hv-pinned-out tools/run_on_tree.sh "$PINNED" "$id" --tier quick >/tmp/hv-pinned-out.log 2>&1
    n=0
    for f in /tmp/hv-pinned-out/replays/$id-*.json; do
        [ -f "$f" ] || continue
        mkdir -p corpus/$id
        stage=$(python3 -c "import json,sys; print(json.load(open(sys.argv[1]))['stage'])" "$f")
        cp "$f" "corpus/$id/pinned-$stage.json"; n=$((n+1))
    done
    echo "$id: $n reproductions kept"
done
rm -rf /tmp/hv-pinned-out
