#!/bin/bash
# Run every registered check once (quick tier by default) and print one line per property.
#   tools/run_all.sh [quick|thorough] [seed]
TIER="${1:-quick}"; SEED="${2:-0}"
cd "$(dirname "$0")/.."
./check --build >/dev/null || { echo "build failed"; exit 2; }
rc=0
for id in $(./harness/target/release/check --list); do
    out="$(VERIF_SEED=$SEED ./check "$id" --tier "$TIER" 2>&1)"; code=$?
    echo "$out" | grep -E "^(VIOLATION|KNOWN-FINDING|INCONCLUSIVE|failure)" | cut -c1-300
    echo "$out" | grep -E "^C[0-9]+ tier=" | sed "s/^/[exit $code] /"
    [ $code -ne 0 ] && rc=1
done
exit $rc
