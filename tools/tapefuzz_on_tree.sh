#!/bin/bash
# Sensitivity helper (not a registered check): coverage-guided tape fuzzing of one random stage against another
# source tree of ureq-proto (a scratch mutant). Copies the harness to a scratch directory, points its path
# dependency at <tree>, builds the libFuzzer target there and runs it.
#   tools/tapefuzz_on_tree.sh <tree> <ID> <stage> [runs-per-worker] [workers]
set -u
TREE="$(cd "$1" && pwd)"; ID="$2"; STAGE="$3"; RUNS="${4:-100000}"; W="${5:-8}"
HERE="$(cd "$(dirname "${BASH_SOURCE[0]}")/.." && pwd)"
S="${TF_SCRATCH:-/tmp/hv-tapefuzz}"
mkdir -p "$S/harness"
rsync -a --delete --exclude target --exclude work "$HERE/harness/" "$S/harness/"
sed -i "s#path = \"/repo\"#path = \"$TREE\"#" "$S/harness/Cargo.toml"
export CARGO_NET_OFFLINE=true CARGO_TARGET_DIR="$S/target"
( cd "$S/harness/fuzz" && cargo +nightly fuzz build -O tapefuzz >"$S/build.log" 2>&1 ) || { echo BUILD-FAILED; tail -n 20 "$S/build.log"; exit 2; }
BIN="$S/target/x86_64-unknown-linux-gnu/release/tapefuzz"
rm -rf "$S/run"; mkdir -p "$S/run/corpus" "$S/run/out"
head -c 8 /dev/zero > "$S/run/corpus/zero"
pids=()
for w in $(seq 1 "$W"); do
  mkdir -p "$S/run/a$w"
  HV_PROP=$ID HV_STAGE=$STAGE HV_OUT="$S/run/out" VERIF_DIR="$HERE" "$BIN" "$S/run/corpus" -artifact_prefix="$S/run/a$w/" \
     -runs="$RUNS" -seed="${TF_SEED:-$w}" -max_len="${TF_MAXLEN:-1000}" -len_control=0 -timeout=60 -print_final_stats=1 >"$S/run/log$w" 2>&1 &
  pids+=($!)
done
rc=0
for p in "${pids[@]}"; do wait "$p" || rc=1; done
grep -h "TAPEFUZZ-ORACLE\|panicked at" "$S"/run/log* | sort | uniq -c | sort -rn | head -5 | cut -c1-400
grep -h "number_of_executed_units" "$S"/run/log* | awk '{s+=$2} END {print "executions:", s}'
[ $rc -ne 0 ] && echo "DETECTED" || echo "not detected"
exit $rc
