#!/bin/bash
# Experiment helper (not a registered check): for one seeded change, how many cases does the proptest stage need until its first
# failure (single shard), and how many executions does the coverage-guided tape search need from a one-unit corpus (single worker)?
#   tools/efficacy.sh <seed-id> <ID> <stage> [tape-max-len]
set -u
SID="$1"; ID="$2"; STAGE="$3"; ML="${4:-1000}"
HERE="$(cd "$(dirname "${BASH_SOURCE[0]}")/.." && pwd)"
T=/tmp/hv-eff/$SID
rm -rf "$T"; mkdir -p "$T/tree"
git -C /repo archive HEAD | tar -x -C "$T/tree"
( cd "$T/tree" && git apply --whitespace=nowarn "$HERE/seeded/$SID/patch.diff" ) || exit 2
for seed in 1 2 3; do
  out=$(VERIF_THREADS=1 VERIF_SEED=$seed MUT_OUT=$T/out MUT_TARGET=/tmp/hv-eff/target "$HERE/tools/run_on_tree.sh" "$T/tree" "$ID" --tier quick 2>&1)
  python3 - "$T/out/evidence/$ID.json" "$STAGE" "$seed" <<'P'
import json,sys
e=json.load(open(sys.argv[1]))
for s in e['coverage']['stages']:
    if s.get('stage')==sys.argv[2]:
        print(f"random seed {sys.argv[3]}: stage {s['stage']} cases={s.get('cases_executed_before_any_failure')} requested={s.get('cases_requested')} violations={e['violations']}")
P
done
for w in 1 2 3; do
  TF_SEED=$w TF_SCRATCH=/tmp/hv-eff/tf TF_MAXLEN=$ML "$HERE/tools/tapefuzz_on_tree.sh" "$T/tree" "$ID" "$STAGE" 3000000 1 2>&1 | tail -3 | tr '\n' ' '; echo
done
rm -rf "$T"
