#!/usr/bin/env python3
"""Seeded-change bookkeeping (not a registered check).

  tools/seeded.py add <dir-with-patch.diff+demo.rs+README.md> <PROP> <name>   verify a sub-agent's change and store it under seeded/<PROP>-<name>/
  tools/seeded.py run [<PROP>-<name> ...] [--props C01,C02|all] [--tier quick]  run checks against stored changes (scratch copy of /repo HEAD + patch)
  tools/seeded.py table                                                        print the detection table

A change is kept only if, on a scratch copy of /repo's HEAD: the patch applies, the crate compiles, all 70 unit + 5 doc tests
pass with it, the demonstration fails with it and passes without it. Nothing is ever applied to /repo itself.
"""
import json, os, re, shutil, subprocess, sys, time

HERE = os.path.dirname(os.path.dirname(os.path.abspath(__file__)))
REPO = "/repo"
SCR = "/tmp/hv-seeded"
ALL = ["C%02d" % i for i in range(1, 21)]


def sh(cmd, cwd=None, env=None, timeout=3600):
    e = dict(os.environ)
    e["CARGO_NET_OFFLINE"] = "true"
    if env:
        e.update(env)
    p = subprocess.run(cmd, shell=True, cwd=cwd, env=e, stdout=subprocess.PIPE, stderr=subprocess.STDOUT, text=True, timeout=timeout)
    return p.returncode, p.stdout


def fresh_tree(slot):
    d = f"{SCR}/{slot}"
    if os.path.isdir(d + "/tree"):
        shutil.rmtree(d + "/tree")
    os.makedirs(d + "/tree", exist_ok=True)
    rc, out = sh(f"git -C {REPO} archive HEAD | tar -x -C {d}/tree")
    assert rc == 0, out
    return d, d + "/tree"


def rebase_patch(patch, slot):
    """A patch written against an older HEAD of /repo (a fix: commit landed since): three-way apply it in a scratch worktree
    and return the path of the regenerated diff, or None when it conflicts."""
    wt = f"{SCR}/rebase-{slot}"
    sh(f"git -C {REPO} worktree remove --force {wt}")
    rc, out = sh(f"git -C {REPO} worktree add --detach {wt} HEAD")
    if rc != 0:
        return None
    try:
        sh(f"git apply --3way --whitespace=nowarn {patch}", cwd=wt)
        rc, unmerged = sh("git diff --name-only --diff-filter=U", cwd=wt)
        if unmerged.strip():
            return None
        rc, diff = sh("git diff HEAD", cwd=wt)
        if not diff.strip():
            return None
        new = patch + ".rebased"
        open(new, "w").write(diff)
        return new
    finally:
        sh(f"git -C {REPO} worktree remove --force {wt}")


def tests_ok(out):
    oks = re.findall(r"test result: ok\. (\d+) passed; 0 failed", out)
    return "test result: FAILED" not in out and "70" in oks and "5" in oks


def add(src, prop, name):
    sid = f"{prop}-{name}"
    d, tree = fresh_tree("add-" + sid)
    tgt = {"CARGO_TARGET_DIR": d + "/repo-target"}
    patch = os.path.join(src, "patch.diff")
    demo = os.path.join(src, "demo.rs")
    ran = []
    # 1. demo passes on the clean tree
    os.makedirs(tree + "/tests", exist_ok=True)
    shutil.copy(demo, tree + "/tests/seed_demo.rs")
    rc, out = sh("cargo test --offline --test seed_demo 2>&1 | tail -n 25", cwd=tree, env=tgt)
    clean_pass = rc == 0 and "test result: ok" in out and "FAILED" not in out
    ran.append("clean tree: cargo test --offline --test seed_demo -> " + ("pass" if clean_pass else "FAIL"))
    # 2. patch applies; suite passes; demo fails
    rc, out = sh(f"git apply --whitespace=nowarn {patch}", cwd=tree)
    applies = rc == 0
    if not applies:
        nb = rebase_patch(patch, "add-" + sid)
        if nb:
            rc, out = sh(f"git apply --whitespace=nowarn {nb}", cwd=tree)
            applies = rc == 0
            if applies:
                patch = nb
                ran.append("patch was written against an older HEAD: rebased by three-way apply")
    ran.append("git apply patch.diff -> " + ("ok" if applies else "FAILED: " + out[-200:]))
    suite_ok = demo_fails = False
    if applies:
        os.remove(tree + "/tests/seed_demo.rs")
        rc, out = sh("cargo test --offline 2>&1 | tail -n 80", cwd=tree, env=tgt)
        suite_ok = tests_ok(out)
        ran.append("patched tree: cargo test --offline (70 unit + 5 doc) -> " + ("pass" if suite_ok else "FAIL"))
        shutil.copy(demo, tree + "/tests/seed_demo.rs")
        rc, out = sh("cargo test --offline --test seed_demo 2>&1 | tail -n 40", cwd=tree, env=tgt)
        demo_fails = "test result: FAILED" in out
        ran.append("patched tree: cargo test --offline --test seed_demo -> " + ("fails (as required)" if demo_fails else "does NOT fail"))
    ok = clean_pass and applies and suite_ok and demo_fails
    print(sid, "KEPT" if ok else "REJECTED", "; ".join(ran))
    if ok:
        out_dir = os.path.join(HERE, "seeded", sid)
        os.makedirs(out_dir, exist_ok=True)
        shutil.copy(patch, out_dir + "/patch.diff")
        shutil.copy(demo, out_dir + "/demo.rs")
        readme = open(os.path.join(src, "README.md")).read() if os.path.exists(os.path.join(src, "README.md")) else ""
        open(out_dir + "/README.md", "w").write(readme)
        meta = {
            "id": sid,
            "breaks_property": prop,
            "source": "independent sub-agent given only the property text and a scratch worktree",
            "needs_to_manifest": readme.strip()[:1500],
            "verified": ran,
            "files_touched": sorted(set(re.findall(r"^\+\+\+ b/(\S+)", open(patch).read(), re.M))),
            "detected_by": {},
        }
        json.dump(meta, open(out_dir + "/meta.json", "w"), indent=1)
    shutil.rmtree(d, ignore_errors=True)
    return ok


def run(ids, props, tier):
    for sid in ids:
        sd = os.path.join(HERE, "seeded", sid)
        meta = json.load(open(sd + "/meta.json"))
        if not os.path.exists(sd + "/patch.diff"):
            print(f"{sid:28s} superseded (no patch for the current HEAD): skipped", flush=True)
            continue
        d, tree = fresh_tree("run-" + sid)
        rc, out = sh(f"git apply --whitespace=nowarn {sd}/patch.diff", cwd=tree)
        assert rc == 0, out
        want = props if props else [meta["breaks_property"]]
        for pid in want:
            t0 = time.time()
            for attempt in range(4):
                rc, out = sh(f"{HERE}/tools/run_on_tree.sh {tree} {pid} --tier {tier}", env={"MUT_OUT": d + "/out", "MUT_TARGET": f"{SCR}/harness-target-" + os.environ.get("SEEDED_SLOT", "0"), "VERIF_SEED": "11"}, timeout=7200)
                if rc != 2:
                    break
                # exit 2 = inconclusive (typically the harness did not build because it was being edited): wait and try again
                time.sleep(45)
            first = [l for l in out.splitlines() if l.startswith("failure")][:1]
            meta["detected_by"][pid] = {"tier": tier, "exit": rc, "detected": rc == 1, "secs": round(time.time() - t0, 1), "first_failure": (first[0][:300] if first else "")}
            json.dump(meta, open(sd + "/meta.json", "w"), indent=1)
            # keep the shrunk reproduction of the own check as a regression input (replayed first by both tiers)
            if pid == meta["breaks_property"] and rc == 1:
                rdir = d + "/out/replays"
                reps = sorted(f for f in os.listdir(rdir) if f.endswith(".json")) if os.path.isdir(rdir) else []
                if reps:
                    cdir = os.path.join(HERE, "corpus", pid)
                    os.makedirs(cdir, exist_ok=True)
                    shutil.copy(os.path.join(rdir, reps[0]), os.path.join(cdir, f"seeded-{sid}.json"))
        det = [p for p, v in meta["detected_by"].items() if v["detected"]]
        own = meta["detected_by"].get(meta["breaks_property"], {}).get("detected")
        print(f"{sid:28s} own={'CAUGHT' if own else 'MISSED'} detected_by={','.join(sorted(det))}", flush=True)
        shutil.rmtree(d + "/tree", ignore_errors=True)
        shutil.rmtree(d + "/out", ignore_errors=True)


def table():
    base = os.path.join(HERE, "seeded")
    for sid in sorted(os.listdir(base)):
        mp = os.path.join(base, sid, "meta.json")
        if not os.path.exists(mp):
            continue
        m = json.load(open(mp))
        det = sorted(p for p, v in m["detected_by"].items() if v["detected"])
        own = m["detected_by"].get(m["breaks_property"], {})
        if m.get("superseded"):
            print(f"{sid:28s} superseded")
            continue
        print(f"{sid:28s} {'caught' if own.get('detected') else ('MISSED' if own else 'not run'):8s} {','.join(det)}")


if __name__ == "__main__":
    a = sys.argv[1:]
    if a and a[0] == "add":
        sys.exit(0 if add(a[1], a[2], a[3]) else 1)
    if a and a[0] == "run":
        ids, props, tier = [], None, "quick"
        i = 1
        while i < len(a):
            if a[i] == "--props":
                props = ALL if a[i + 1] == "all" else a[i + 1].split(",")
                i += 2
            elif a[i] == "--tier":
                tier = a[i + 1]
                i += 2
            else:
                ids.append(a[i])
                i += 1
        if not ids:
            ids = sorted(x for x in os.listdir(os.path.join(HERE, "seeded")) if os.path.exists(os.path.join(HERE, "seeded", x, "meta.json")))
        run(ids, props, tier)
    elif a and a[0] == "table":
        table()
