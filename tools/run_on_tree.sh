#!/bin/bash
# Sensitivity helper (not a registered check): run a check against another source tree of ureq-proto
# (a scratch mutant) instead of /repo, without touching /repo or /verif's evidence.
#   tools/run_on_tree.sh <tree> <ID> [--tier quick|thorough]
set -u
TREE="$(cd "$1" && pwd)"; shift
HERE="$(cd "$(dirname "${BASH_SOURCE[0]}")/.." && pwd)"
OUT="${MUT_OUT:-/tmp/hv-mut-out}"
mkdir -p "$OUT"
rm -rf "$OUT/evidence" "$OUT/replays"
ln -sfn "$HERE/KNOWN_FINDINGS.txt" "$OUT/KNOWN_FINDINGS.txt"
ln -sfn "$HERE/corpus" "$OUT/corpus"
export CARGO_NET_OFFLINE=true
export CARGO_TARGET_DIR="${MUT_TARGET:-/tmp/hv-mut-target}"
cd "$HERE/harness" || exit 2
if ! cargo build --release --offline --bin check --config "paths=[\"$TREE\"]" >"$OUT/build.log" 2>&1; then
    echo "BUILD-FAILED"; tail -n 30 "$OUT/build.log"; exit 2
fi
VERIF_DIR="$OUT" exec "$CARGO_TARGET_DIR/release/check" "$@"
