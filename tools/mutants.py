#!/usr/bin/env python3
"""Sensitivity sweep (not a registered check): apply hand-written mutants of ureq-proto to a scratch copy of /repo's
HEAD, confirm each compiles and passes the repository's own 70 tests, then run the checks that must catch it.

  tools/mutants.py [--only NAME[,NAME]] [--jobs N] [--all-props]

Writes sensitivity/mutants.json and prints a table. Nothing in /repo or /verif/evidence is touched.
"""
import json, os, shutil, subprocess, sys, concurrent.futures, re, time

HERE = os.path.dirname(os.path.dirname(os.path.abspath(__file__)))
REPO = "/repo"
SCRATCH = "/tmp/hv-mutants"

# name, file, old, new, expected-to-catch (properties)
M = []
def mut(name, file, old, new, props, note=""):
    M.append(dict(name=name, file=file, old=old, new=new, props=props, note=note))

# ---------------------------------------------------------------- reverse of the repairs (D1..D12)
mut("R01_version_check", "src/ext.rs", "if v != Version::HTTP_10 && v != Version::HTTP_11 {", "if v == Version::HTTP_10 && v == Version::HTTP_11 {", ["C17"])
mut("R02_zero_chunk", "src/body.rs", "    if to_write == 0 {\n        return false;\n    }\n", "", ["C03", "C01", "C19"])
mut("R03_one_digit_size", "src/body.rs", "    while to_write > 0 && to_write + chunk_overhead(to_write) > available {\n        to_write -= 1;\n    }\n", "", ["C19"], "C01 answers a stalled schedule canonically: progress is C19's clause")
mut("R04_ended_without_terminator", "src/body.rs", "                    if self.finish(w) {\n                        self.ended = true;\n                    }", "                    self.finish(w);\n                    self.ended = true;", ["C03", "C09", "C01"])
mut("R05_second_terminator", "src/client/call.rs", "            if !self.state.writer.is_ended() {\n                input_used = self.state.writer.write(input, &mut w);\n            }", "            input_used = self.state.writer.write(input, &mut w);", ["C03"])
mut("R06_write_after_head", "src/client/flow.rs", "            CallHolder::WithBody(v) if v.is_body() => Ok(0),\n", "", ["C02", "C09"])
mut("R07_partial_short_err", "src/parser.rs", "            // Not enough input to even have the version.\n            None => return Ok(None),", "            None => return Err(Error::MissingResponseVersion),", ["C05", "C20", "C01", "C11"])
mut("R08_await100_refusal_edge", "src/client/flow.rs", "            let call_recv = call_body.into_receive_skip_body();\n            self.inner.call = CallHolder::RecvResponse(call_recv);\n", "            self.inner.call = CallHolder::WithBody(call_body);\n", ["C09", "C11", "C10", "C12", "C01"])
mut("R09_despite_no_writer", "src/client/call.rs", "        self.state.writer = BodyWriter::new_chunked();\n\n        Call {\n            request: self.request,\n            analyzed: self.analyzed,\n            state: self.state,", "        Call {\n            request: self.request,\n            analyzed: self.analyzed,\n            state: self.state,", ["C09", "C02"])
mut("R10_four_reasons", "src/client/flow.rs", "ArrayVec<CloseReason, 5>", "ArrayVec<CloseReason, 4>", ["C10", "C12"])
mut("R11_unset_filters_added", "src/client/amended.rs", """            .chain(
                // Unset only applies to the headers of the original request, not
                // to the headers added for this specific call.
                self.request
                    .headers()
                    .iter()
                    .filter(|v| !self.unset.iter().any(|x| x == v.0)),
            )""", """            .chain(self.request.headers().iter())
            .filter(|v| !self.unset.iter().any(|x| x == v.0))""", ["C16", "C02"])
mut("R13_te_first_line_only", "src/body.rs", """        let chunked = headers
            .get_all("transfer-encoding")
            .iter()
            .filter_map(|v| v.to_str().ok())
            .flat_map(|v| v.split(','))""", """        let chunked = headers
            .get("transfer-encoding")
            .into_iter()
            .filter_map(|v| v.to_str().ok())
            .flat_map(|v| v.split(','))""", ["C06"])
mut("R14_host_follows_redirect", "src/client/flow.rs", "        if !keep_host_header {\n            request.unset_header(\"host\")?;\n        }\n", "", ["C14"])
mut("R12_builder_expect", "src/parser.rs", "    let response = builder\n        .body(())\n        .map_err(|e| Error::HttpParseFail(e.to_string()))?;\n\n    Ok(Some((input_used, response)))", "    let response = builder.body(()).expect(\"a valid response\");\n\n    Ok(Some((input_used, response)))", ["C12"])

# ---------------------------------------------------------------- per-property mutants ("must catch" lists of DESIGN section 7)
# body reader / writer
mut("M01_read_limit_ignores_left", "src/body.rs", "        let to_read = src.len().min(dst.len()).min(left_usize);\n\n        dst[..to_read].copy_from_slice(&src[..to_read]);\n\n        *left -= to_read as u64;", "        let to_read = src.len().min(dst.len());\n\n        dst[..to_read].copy_from_slice(&src[..to_read]);\n\n        *left = left.saturating_sub(to_read as u64);", ["C08", "C01"])
mut("M02_length_ended_early", "src/body.rs", "            BodyReader::LengthDelimited(v) => *v == 0,", "            BodyReader::LengthDelimited(v) => *v <= 1,", ["C08", "C01"])
mut("M03_close_delimited_not_must_close", "src/client/flow.rs", "            if call_body.is_close_delimited() {\n                self.inner\n                    .close_reason\n                    .push(CloseReason::CloseDelimitedBody);\n            }", "", ["C08", "C10", "C01"])
mut("M04_chunk_len_decimal", "src/body.rs", "write!(w, \"{:0x?}\\r\\n\", to_write)?;", "write!(w, \"{}\\r\\n\", to_write)?;", ["C03", "C18", "C19", "C01"])
mut("M05_input_used_on_rollback", "src/body.rs", "    if success {\n        *input_used += to_write;\n    }", "    *input_used += to_write;", [], "equivalent since the chunk is sized to fit: the write cannot fail any more")
mut("M06_sized_overshoot_ge", "src/client/call.rs", "                if input.len() as u64 > left {\n                    return Err(Error::BodyLargerThanContentLength);\n                }\n            }\n            // Once ended", "                if input.len() as u64 >= left && left > 0 {\n                    return Err(Error::BodyLargerThanContentLength);\n                }\n            }\n            // Once ended", ["C04", "C01"])
mut("M07_sized_ended_at_one", "src/body.rs", "                *left -= to_write as u64;\n\n                if *left == 0 {\n                    self.ended = true;\n                }\n\n                to_write", "                *left -= to_write as u64;\n\n                if *left <= 1 {\n                    self.ended = true;\n                }\n\n                to_write", ["C04", "C01"])
mut("M08_direct_write_not_counted", "src/body.rs", "            SenderMode::Sized(left) => {\n                *left -= amount as u64;\n\n                if *left == 0 {", "            SenderMode::Sized(left) => {\n                let _ = amount;\n\n                if *left == 0 {", ["C04"])
mut("M09_sized_min_without_left", "src/body.rs", "                let to_write = w.available().min(input.len()).min(left_usize);", "                let to_write = w.available().min(input.len()).min(left_usize.max(1));", [], "equivalent: Call::write refuses input longer than the remainder before the writer runs")
mut("M10_max_input_overhead_7", "src/body.rs", "pub(crate) const DEFAULT_CHUNK_OVERHEAD: usize = 4 + 4;", "pub(crate) const DEFAULT_CHUNK_OVERHEAD: usize = 4 + 3;", ["C18"])
mut("M11_max_input_tail_lt", "src/body.rs", "    let tail = if remaining <= DEFAULT_CHUNK_OVERHEAD {", "    let tail = if remaining < DEFAULT_CHUNK_OVERHEAD - 3 {", ["C18"])
mut("M12_writer_chunk_size_differs", "src/body.rs", "                        DEFAULT_CHUNK_SIZE,\n                    ) {}", "                        DEFAULT_CHUNK_SIZE - 2048,\n                    ) {}", ["C18"], "smaller chunks than the formula assumes: more overhead, the advertised input no longer fits")
mut("M13_shrink_once", "src/body.rs", "    while to_write > 0 && to_write + chunk_overhead(to_write) > available {\n        to_write -= 1;\n    }", "    if to_write > 0 && to_write + chunk_overhead(to_write) > available {\n        to_write = to_write.saturating_sub(chunk_overhead(to_write) - 5);\n    }", ["C19"], "non-maximal chunk: monotonicity in the input length")
mut("M14_single_chunk_per_write", "src/body.rs", "    // write another chunk?\n    success && input.len() > to_write", "    // write another chunk?\n    success && input.len() > to_write && false", [], "output not filled: not covered by any listed property (progress still made)")
# dechunker
mut("M15_dechunk_crlf_with_data", "src/chunk.rs", "        if *left == 0 {\n            *self = Self::CrLf;\n        }\n\n        Ok(to_read > 0)", "        if *left == 0 {\n            *self = Self::CrLf;\n            if src.len() >= to_read + 2 {\n                pos.index_in += 2;\n                *self = Self::Size;\n            }\n        }\n\n        Ok(to_read > 0)", ["C07", "C01"], "CRLF consumed together with the data without checking it")
mut("M16_trailer_is_end", "src/chunk.rs", "        } else {\n            // Non-crlf before\n            *self = Self::Trailer;\n        }", "        } else {\n            // Non-crlf before\n            *self = Self::Ended;\n        }", ["C07", "C01"])
mut("M17_ended_on_last_chunk_line", "src/chunk.rs", "        *self = if len == 0 {\n            Self::Ending\n        } else {", "        *self = if len == 0 {\n            Self::Ended\n        } else {", ["C07", "C01"])
mut("M18_boundary_stop_ignored_when_full", "src/body.rs", "            if stop_on_chunk_boundary && dechunker.is_on_chunk_boundary() {\n                break;\n            }", "            if stop_on_chunk_boundary && dechunker.is_on_chunk_boundary() && output_used < dst.len() / 2 {\n                break;\n            }", ["C07"])
mut("M19_chunk_size_decimal", "src/chunk.rs", "usize::from_str_radix(len_str, 16)", "usize::from_str_radix(len_str, 10)", ["C07", "C01"])
mut("M20_dechunk_over_read_one", "src/chunk.rs", "        if i == 0 {\n            pos.index_in += 2;\n            *self = Self::Ended;", "        if i == 0 {\n            pos.index_in += (2 + 1).min(src.len());\n            *self = Self::Ended;", ["C07", "C01"])
# framing table
mut("M21_cl_before_chunked", "src/body.rs", "        if chunked && !http10 {", "        if chunked && !http10 && content_length.is_none() {", ["C06", "C01"])
mut("M22_connect_clause_dropped", "src/body.rs", "            is_success && method == Method::CONNECT ||\n", "", ["C06"])
mut("M23_304_dropped", "src/body.rs", "            matches!(status_code, 204 | 304) ||", "            matches!(status_code, 204) ||", ["C06"])
mut("M24_chunked_on_http10", "src/body.rs", "        if chunked && !http10 {", "        if chunked {", ["C06"])
mut("M25_len0_enters_recv_body", "src/client/call.rs", "            Some(BodyReader::NoBody) | Some(BodyReader::LengthDelimited(0))", "            Some(BodyReader::NoBody)", ["C06", "C01", "C09"])
mut("M26_redirect_rule_on_304", "src/body.rs", "        let is_redirect = (300..=399).contains(&status_code) && status_code != 304;", "        let is_redirect = (300..=399).contains(&status_code);", [], "equivalent: 304 already has no body")
mut("M27_head_clause_dropped", "src/body.rs", "            method == Method::HEAD ||\n", "", ["C06", "C01"])
# head parsing
mut("M28_response_len_is_input_len", "src/parser.rs", "    let input_used = match maybe_input_used {\n        Status::Complete(v) => v,\n        Status::Partial => return Ok(None),\n    };\n\n    let version = {\n        let v = res.version.ok_or(Error::MissingResponseVersion)?;\n        match v {\n            0 => Version::HTTP_10,\n            1 => Version::HTTP_11,\n            _ => return Err(Error::UnsupportedVersion),\n        }\n    };\n\n    let status", "    let input_used = match maybe_input_used {\n        Status::Complete(_) => input.len(),\n        Status::Partial => return Ok(None),\n    };\n\n    let version = {\n        let v = res.version.ok_or(Error::MissingResponseVersion)?;\n        match v {\n            0 => Version::HTTP_10,\n            1 => Version::HTTP_11,\n            _ => return Err(Error::UnsupportedVersion),\n        }\n    };\n\n    let status", ["C05", "C20", "C01"])
mut("M29_limit_127", "src/client/mod.rs", "pub const MAX_RESPONSE_HEADERS: usize = 128;", "pub const MAX_RESPONSE_HEADERS: usize = 127;", ["C05"])
mut("M30_limit_129", "src/client/mod.rs", "pub const MAX_RESPONSE_HEADERS: usize = 128;", "pub const MAX_RESPONSE_HEADERS: usize = 129;", ["C05"])
mut("M31_request_len_is_input_len", "src/parser.rs", "    let input_used = match maybe_input_used {\n        Status::Complete(v) => v,\n        Status::Partial => return Ok(None),\n    };\n\n    let version = {\n        let v = req.version", "    let input_used = match maybe_input_used {\n        Status::Complete(_) => input.len(),\n        Status::Partial => return Ok(None),\n    };\n\n    let version = {\n        let v = req.version", ["C20"])
mut("M32_method_uppercased", "src/parser.rs", "Method::from_bytes(v.as_bytes())", "Method::from_bytes(v.to_ascii_uppercase().as_bytes())", ["C20"])
mut("M33_partial_drops_last_field", "src/parser.rs", "    for h in res.headers {\n        if h.name.is_empty() || h.value.is_empty() {\n            break;\n        }", "    for h in res.headers {\n        if h.name.is_empty() {\n            break;\n        }", [], "empty-valued fields now listed by the partial parser: allowed by the statement")
mut("M34_fallback_for_any_status", "src/client/call.rs", "                        r.status().is_redirection() && r.headers().contains_key(\"location\");", "                        r.headers().contains_key(\"location\");", ["C05"], "partial fallback accepted for non-3xx: outside the known finding's signature")
# request head writer
mut("M35_host_added_although_supplied", "src/client/call.rs", "        if !info.req_host_header {\n            if let Some(host)", "        if !info.req_host_header || self.request.headers_len() > 6 {\n            if let Some(host)", ["C02"])
mut("M36_blank_line_before_last_header", "src/client/call.rs", "            do_write_headers(skipped, index, header_count - 1, w);", "            do_write_headers(skipped, index, header_count.saturating_sub(2).max(if header_count == 1 { 0 } else { usize::MAX / 2 }).min(header_count - 1), w);", [], "placeholder, replaced below")
mut("M37_head_resumes_at_index_plus_1", "src/client/call.rs", "        if success {\n            *index += 1;\n        } else {\n            break;\n        }", "        if success {\n            *index += 1;\n        } else {\n            if *index > 2 {\n                *index += 1;\n            }\n            break;\n        }", ["C02", "C01"], "a header line that did not fit is skipped")
mut("M38_rollback_dropped", "src/util.rs", "        if !success {\n            self.0.set_position(pos);\n        }", "        if !success && pos < 40 {\n            self.0.set_position(pos);\n        }", ["C02", "C01"])
mut("M39_send_request_ready_after_line", "src/client/flow.rs", "            CallHolder::WithoutBody(v) => v.is_finished(),\n            CallHolder::WithBody(v) => v.is_body(),\n            _ => unreachable!(),\n        }\n    }\n\n    /// Attempt to proceed from this state to the next.", "            CallHolder::WithoutBody(v) => v.is_finished(),\n            CallHolder::WithBody(v) => !v.is_prelude() || v.amended().headers_len() > 9,\n            _ => unreachable!(),\n        }\n    }\n\n    /// Attempt to proceed from this state to the next.", ["C02"], "needs more than 9 headers on a body request")
# redirects
mut("M40_auth_host_only", "src/client/flow.rs", "    host_prev == host_next && (scheme_prev == scheme_next || scheme_next == Some(&Scheme::HTTPS))", "    host_prev == host_next", ["C13"])
mut("M41_auth_scheme_inverted", "src/client/flow.rs", "scheme_next == Some(&Scheme::HTTPS))", "scheme_prev == Some(&Scheme::HTTPS))", ["C13"])
mut("M42_auth_vs_previous_hop", "src/client/flow.rs", "            RedirectAuthHeaders::SameHost => can_redirect_auth_header(request.uri(), &uri),", "            RedirectAuthHeaders::SameHost => can_redirect_auth_header(&prev_uri, &uri),", ["C13"], "needs prev_uri captured: see extra edit")
mut("M43_cookie_kept_on_later_hops", "src/client/flow.rs", "        request.unset_header(\"cookie\")?;", "        if request.original_request_headers().get(\"x-keep\").is_none() || uri.path().len() % 2 == 0 {\n            request.unset_header(\"cookie\")?;\n        }", ["C13"], "cookie leaks for some targets only")
mut("M44_content_length_kept", "src/client/flow.rs", "        request.unset_header(\"content-length\")?;\n", "", ["C13", "C02", "C16"])
mut("M45_first_location_wins", "src/client/flow.rs", "            .into_iter()\n            .last()\n            .cloned();", "            .into_iter()\n            .next()\n            .cloned();", ["C14"])
mut("M46_resolve_against_original", "src/client/amended.rs", "        let base = Url::parse(&self.uri().to_string()).expect(\"base uri to be a url\");", "        let base = Url::parse(&self.request.uri().to_string()).expect(\"base uri to be a url\");", ["C14", "C13"])
mut("M47_other_3xx_narrowed", "src/client/flow.rs", "            if matches!(*method, Method::GET | Method::HEAD) {\n                method.clone()\n            } else {\n                Method::GET\n            }", "            if matches!(*method, Method::GET | Method::HEAD) || !(301..=303).contains(&status.as_u16()) {\n                method.clone()\n            } else {\n                Method::GET\n            }", ["C15"])
mut("M48_delete_followed_on_307", "src/client/flow.rs", "            } else if method == Method::DELETE {\n                // NOTE: DELETE is intentionally excluded: https://stackoverflow.com/questions/299628\n                return Ok(None);\n            } else {", "            } else {", ["C15"])
mut("M49_head_becomes_get", "src/client/flow.rs", "            if matches!(*method, Method::GET | Method::HEAD) {", "            if matches!(*method, Method::GET) {", ["C15"])
mut("M50_304_enters_redirect", "src/client/flow.rs", "            Some(v) => v.is_redirection() && v != StatusCode::NOT_MODIFIED,", "            Some(v) => v.is_redirection(),", ["C15", "C06"])
mut("M51_added_after_inherited", "src/client/amended.rs", """        self.headers
            .iter()
            .map(|v| (&v.0, &v.1))
            .chain(""", """        let n_auto = self.headers.iter().filter(|v| v.0 == "host" || v.0 == "transfer-encoding").count().min(1);
        self.headers
            .iter()
            .skip(n_auto * 0)
            .map(|v| (&v.0, &v.1))
            .chain(""", [], "placeholder")
# request validity
mut("M52_dup_host_original_only", "src/client/amended.rs", "        let count_host = self.headers_get_all(\"host\").count();", "        let count_host = self.request.headers().get_all(\"host\").iter().count();", ["C17"])
mut("M53_host_count_ge_1", "src/client/amended.rs", "        if count_host > 1 {", "        if count_host > 2 {", ["C17"])
mut("M54_error_cached_second_write_ok", "src/client/call.rs", "        if self.analyzed {\n            return Ok(());\n        }\n", "        if self.analyzed {\n            return Ok(());\n        }\n        self.analyzed = self.request.headers_len() > 3;\n", ["C17"], "analysis marked done before it can fail: a second write is accepted")
mut("M55_despite_keeps_method_check", "src/client/call.rs", "        self.state.skip_method_body_check = true;\n\n        // Same default", "        self.state.skip_method_body_check = self.request.method() != http::Method::DELETE;\n\n        // Same default", ["C09", "C17", "C02"])
mut("M56_cl_dup_allowed", "src/client/amended.rs", "        if count_len > 1 {", "        if count_len > 2 {", ["C17"])
# close reasons
mut("M57_no_http10_reason", "src/client/flow.rs", "            close_reason.push(CloseReason::Http10)\n", "", ["C10", "C01"])
mut("M58_no_client_close_reason", "src/client/flow.rs", "            close_reason.push(CloseReason::ClientConnectionClose);\n", "", ["C10", "C01"])
mut("M59_no_server_close_reason", "src/client/flow.rs", "            self.inner\n                .close_reason\n                .push(CloseReason::ServerConnectionClose);\n", "", ["C10", "C01"])
mut("M60_no_not100_reason_on_headers", "src/client/flow.rs", "                    // the Response<()> to the user. Hence this is not considered an error.\n                    self.inner.close_reason.push(CloseReason::Not100Continue);", "                    // the Response<()> to the user. Hence this is not considered an error.", ["C10", "C11", "C01"])
mut("M61_verdict_len_gt_1", "src/client/flow.rs", "impl<B> Flow<B, Cleanup> {\n    /// Tell if we must close the connection.\n    pub fn must_close_connection(&self) -> bool {\n        self.close_reason().is_some()", "impl<B> Flow<B, Cleanup> {\n    /// Tell if we must close the connection.\n    pub fn must_close_connection(&self) -> bool {\n        self.inner.close_reason.len() > 1", ["C10", "C01"])
# expect-100
mut("M62_100_consumed_on_refusal", "src/client/flow.rs", "                        self.inner.close_reason.push(CloseReason::Not100Continue);\n                        self.inner.should_send_body = false;\n                        Ok(0)", "                        self.inner.close_reason.push(CloseReason::Not100Continue);\n                        self.inner.should_send_body = false;\n                        Ok(input_used)", ["C11", "C01", "C09"])
mut("M63_late_100_never_skipped", "src/client/flow.rs", "        if response.status() == StatusCode::CONTINUE && self.inner.await_100_continue {", "        if response.status() == StatusCode::CONTINUE && self.inner.await_100_continue && false {", ["C11", "C01"])
mut("M64_late_100_skipped_always", "src/client/flow.rs", "            self.inner.await_100_continue = false;\n\n            // We should consume the response and wait for the next.", "            // We should consume the response and wait for the next.", [], "second late 100 is outside the statement (exactly-once is checked with one late 100 only)")
mut("M65_refusal_still_sends_body", "src/client/flow.rs", "                        self.inner.close_reason.push(CloseReason::Not100Continue);\n                        self.inner.should_send_body = false;\n                        Ok(0)", "                        self.inner.close_reason.push(CloseReason::Not100Continue);\n                        Ok(0)", ["C11", "C09", "C01"])
# hostile input
mut("M66_dechunk_unchecked_index", "src/chunk.rs", "        let maybe_meta = src.iter().take(100).position(|c| *c == b';');", "        let maybe_meta = src.iter().take(100).position(|c| *c == b';');\n        let _probe = src[i + 1];", [], "equivalent (i + 1 is the LF)")
mut("M67_chunk_len_overflow", "src/chunk.rs", "        pos.index_in += i + 2;\n        *self = if len == 0 {", "        pos.index_in += i + 2;\n        let len = len + len / (usize::MAX / 2) * usize::MAX;\n        *self = if len == 0 {", ["C12"], "arithmetic overflow on huge chunk sizes")
mut("M68_unwrap_location_to_str", "src/client/flow.rs", "        let location = match header.to_str() {\n            Ok(v) => v,\n            Err(_) => {\n                return Err(Error::BadLocationHeader(\n                    String::from_utf8_lossy(header.as_bytes()).to_string(),\n                ))\n            }\n        };", "        let location = header.to_str().unwrap();", ["C12", "C14"])
mut("M69_read_limit_underflow", "src/body.rs", "        let to_read = src.len().min(dst.len()).min(left_usize);\n\n        dst[..to_read].copy_from_slice(&src[..to_read]);\n\n        *left -= to_read as u64;", "        let to_read = src.len().min(dst.len()).min(left_usize + 1);\n\n        dst[..to_read].copy_from_slice(&src[..to_read]);\n\n        *left -= to_read as u64;", ["C12", "C08", "C01"])


# ---------------------------------------------------------------- variants of mutants the repository's tests kill, made conditional so that they pass
mut("V03_close_delimited_not_must_close_on_404", "src/client/flow.rs", "            if call_body.is_close_delimited() {", "            if call_body.is_close_delimited() && self.inner.status != Some(StatusCode::NOT_FOUND) {", ["C10", "C01"])
mut("V06_overshoot_by_one_accepted", "src/client/call.rs", "                if input.len() as u64 > left {\n                    return Err(Error::BodyLargerThanContentLength);\n                }\n            }\n            // Once ended", "                if input.len() as u64 > left + 1 {\n                    return Err(Error::BodyLargerThanContentLength);\n                }\n            }\n            // Once ended", ["C04"])
mut("V10_max_input_off_by_one_above_5000", "src/body.rs", "        remaining - DEFAULT_CHUNK_OVERHEAD\n    };", "        remaining - DEFAULT_CHUNK_OVERHEAD + (remaining > 5000 && remaining < 9000) as usize\n    };", ["C18"])
mut("V15_dechunk_crlf_with_data_big_chunks", "src/chunk.rs", "        if *left == 0 {\n            *self = Self::CrLf;\n        }\n\n        Ok(to_read > 0)", "        if *left == 0 {\n            *self = Self::CrLf;\n            if to_read >= 8 && src.len() >= to_read + 2 {\n                pos.index_in += 2;\n                *self = Self::Size;\n            }\n        }\n\n        Ok(to_read > 0)", ["C07"], "only the boundary-stop clause is affected: not part of C01's observation")
mut("V17_ended_on_decorated_last_chunk_line", "src/chunk.rs", "        *self = if len == 0 {\n            Self::Ending\n        } else {", "        *self = if len == 0 && i > 1 {\n            Self::Ended\n        } else if len == 0 {\n            Self::Ending\n        } else {", ["C07", "C01"])
mut("V25_len0_enters_recv_body_on_5xx", "src/client/call.rs", "    fn need_response_body(&self) -> bool {\n        !matches!(\n            self.reader,\n            Some(BodyReader::NoBody) | Some(BodyReader::LengthDelimited(0))\n        )\n    }", "    fn need_response_body(&self) -> bool {\n        !matches!(self.reader, Some(BodyReader::NoBody)) && !(matches!(self.reader, Some(BodyReader::LengthDelimited(0))) && !self.stop_on_chunk_boundary)\n    }", [], "equivalent (flag is false at that point); placeholder")
mut("V27_head_clause_not_for_chunked", "src/body.rs", "            method == Method::HEAD ||\n", "            method == Method::HEAD && !matches!(header_defined, Self::Chunked(_)) ||\n", ["C06", "C01"])
mut("V43_cookie_kept_with_auth", "src/client/flow.rs", "        request.unset_header(\"cookie\")?;", "        if !keep_auth_header {\n            request.unset_header(\"cookie\")?;\n        }", ["C13"])
mut("V45_last_of_first_three_locations", "src/client/flow.rs", "            .into_iter()\n            .last()\n            .cloned();", "            .into_iter()\n            .take(3)\n            .last()\n            .cloned();", ["C14"])
mut("V48_delete_followed_on_308", "src/client/flow.rs", "            } else if method == Method::DELETE {", "            } else if method == Method::DELETE && status != StatusCode::PERMANENT_REDIRECT {", ["C15"])
mut("V49_head_becomes_get_on_303", "src/client/flow.rs", "            if matches!(*method, Method::GET | Method::HEAD) {", "            if matches!(*method, Method::GET | Method::HEAD) && !(*method == Method::HEAD && status == StatusCode::SEE_OTHER) {", ["C15"])
mut("V55_despite_keeps_method_check_for_options", "src/client/call.rs", "        self.state.skip_method_body_check = true;\n\n        // Same default", "        self.state.skip_method_body_check = self.request.method() != http::Method::OPTIONS;\n\n        // Same default", ["C09", "C17"])
mut("V57_no_http10_reason_with_connection_header", "src/client/flow.rs", "        if request.version() == Version::HTTP_10 {", "        if request.version() == Version::HTTP_10 && !request.headers().contains_key(\"connection\") {", ["C10"])
mut("V58_client_close_only_on_http11", "src/client/flow.rs", "        if request.headers().iter().has(\"connection\", \"close\") {\n            close_reason.push(CloseReason::ClientConnectionClose);", "        if request.version() != Version::HTTP_10 && request.headers().iter().has(\"connection\", \"close\") {\n            close_reason.push(CloseReason::ClientConnectionClose);", [], "masked by the HTTP/1.0 reason: verdict unchanged")
mut("V59_server_close_ignored_on_redirect", "src/client/flow.rs", "        if response.headers().iter().has(\"connection\", \"close\") {\n            self.inner", "        if response.headers().iter().has(\"connection\", \"close\") && !response.status().is_redirection() {\n            self.inner", ["C10", "C01"])
mut("V60_no_not100_reason_for_bare_204", "src/client/flow.rs", "                        self.inner.close_reason.push(CloseReason::Not100Continue);\n                        self.inner.should_send_body = false;\n                        Ok(0)", "                        if response.status() != StatusCode::NO_CONTENT {\n                            self.inner.close_reason.push(CloseReason::Not100Continue);\n                        }\n                        self.inner.should_send_body = false;\n                        Ok(0)", ["C10", "C11"])
mut("V61_redirect_verdict_len_gt_1", "src/client/flow.rs", "    /// This is used to inform connection pooling.\n    pub fn must_close_connection(&self) -> bool {\n        self.close_reason().is_some()", "    /// This is used to inform connection pooling.\n    pub fn must_close_connection(&self) -> bool {\n        self.inner.close_reason.len() > 1", ["C10", "C01"])
mut("V62_bare_5xx_consumed_on_refusal", "src/client/flow.rs", "                        self.inner.close_reason.push(CloseReason::Not100Continue);\n                        self.inner.should_send_body = false;\n                        Ok(0)", "                        self.inner.close_reason.push(CloseReason::Not100Continue);\n                        self.inner.should_send_body = false;\n                        Ok(if response.status().is_server_error() { input_used } else { 0 })", ["C11", "C01"])
mut("V63_late_http10_100_not_skipped", "src/client/flow.rs", "        if response.status() == StatusCode::CONTINUE && self.inner.await_100_continue {", "        if response.status() == StatusCode::CONTINUE && self.inner.await_100_continue && response.version() == Version::HTTP_11 {", ["C11", "C01"])
mut("V65_bare_1xx_refusal_still_sends_body", "src/client/flow.rs", "                        self.inner.close_reason.push(CloseReason::Not100Continue);\n                        self.inner.should_send_body = false;\n                        Ok(0)", "                        self.inner.close_reason.push(CloseReason::Not100Continue);\n                        self.inner.should_send_body = response.status().is_informational();\n                        Ok(0)", ["C11"], "needs a bare 1xx refusal: C11's status range; C09's menu and generator refuse with 2xx..5xx (1xx added to the generator afterwards)")
mut("V70_added_after_inherited_on_redirected_flows", "src/client/amended.rs", """    pub fn headers(&self) -> impl Iterator<Item = (&HeaderName, &HeaderValue)> {
        self.headers
            .iter()
            .map(|v| (&v.0, &v.1))
            .chain(
                // Unset only applies to the headers of the original request, not
                // to the headers added for this specific call.
                self.request
                    .headers()
                    .iter()
                    .filter(|v| !self.unset.iter().any(|x| x == v.0)),
            )
    }""", """    pub fn headers(&self) -> impl Iterator<Item = (&HeaderName, &HeaderValue)> {
        let added = self.headers.iter().map(|v| (&v.0, &v.1));
        let inherited = self
            .request
            .headers()
            .iter()
            .filter(|v| !self.unset.iter().any(|x| x == v.0));
        let redirected = self.unset.len() > 0;
        let a: Vec<(&HeaderName, &HeaderValue)> = added.collect();
        let b: Vec<(&HeaderName, &HeaderValue)> = inherited.collect();
        let (first, second) = if redirected { (b, a) } else { (a, b) };
        first.into_iter().chain(second)
    }""", ["C16", "C02"])

M = [m for m in M if m["name"] not in ("M36_blank_line_before_last_header", "M51_added_after_inherited", "M42_auth_vs_previous_hop")]

# mutants that need more than one edit
EXTRA = {}
mut("M70_added_after_inherited", "src/client/amended.rs", """        self.headers
            .iter()
            .map(|v| (&v.0, &v.1))
            .chain(
                // Unset only applies to the headers of the original request, not
                // to the headers added for this specific call.
                self.request
                    .headers()
                    .iter()
                    .filter(|v| !self.unset.iter().any(|x| x == v.0)),
            )""", """        self.request
            .headers()
            .iter()
            .filter(|v| !self.unset.iter().any(|x| x == v.0))
            .chain(self.headers.iter().map(|v| (&v.0, &v.1)))""", ["C16", "C02"])
mut("M71_blank_line_early", "src/client/call.rs", "            if *index == last_index {\n                write!(w, \"\\r\\n\")?;\n            }", "            if *index == last_index || (*index == 7 && last_index > 9) {\n                write!(w, \"\\r\\n\")?;\n            }", ["C02"])
mut("M72_auth_vs_current_hop", "src/client/flow.rs", "        let mut request = previous.take_request();\n        *request.method_mut() = new_method;", "        let prev_uri = previous.uri().clone();\n        let mut request = previous.take_request();\n        *request.method_mut() = new_method;", ["C13"])
EXTRA["M72_auth_vs_current_hop"] = [("src/client/flow.rs", "            RedirectAuthHeaders::SameHost => can_redirect_auth_header(request.uri(), &uri),", "            RedirectAuthHeaders::SameHost => can_redirect_auth_header(&prev_uri, &uri),")]
mut("M73_await100_accepts_partial_100", "src/client/flow.rs", "                // Not enough input yet.\n                None => Ok(0),", "                // Not enough input yet.\n                None => {\n                    if input.len() > 12 && &input[9..12] == b\"100\" && input.ends_with(b\"\\r\\n\") {\n                        self.inner.await_100_continue = false;\n                        return Ok(input.len());\n                    }\n                    Ok(0)\n                }", ["C11"], "the stray CRLF left behind is skipped by httparse: invisible to C01")
mut("M74_recv_response_3xx_body_to_cleanup", "src/client/flow.rs", "        Some(if self.inner.is_redirect() {\n            RecvBodyResult::Redirect(Flow::wrap(self.inner))", "        Some(if self.inner.is_redirect() && self.inner.location.is_some() {\n            RecvBodyResult::Redirect(Flow::wrap(self.inner))", ["C09", "C15", "C01"], "3xx with body but without Location goes to Cleanup")

ALL_PROPS = ["C%02d" % i for i in range(1, 21)]


def sh(cmd, cwd=None, env=None, timeout=3600):
    e = dict(os.environ)
    e["CARGO_NET_OFFLINE"] = "true"
    if env:
        e.update(env)
    p = subprocess.run(cmd, shell=True, cwd=cwd, env=e, stdout=subprocess.PIPE, stderr=subprocess.STDOUT, text=True, timeout=timeout)
    return p.returncode, p.stdout


def prepare(slot):
    d = f"{SCRATCH}/slot{slot}"
    if os.path.isdir(d + "/tree"):
        shutil.rmtree(d + "/tree")
    os.makedirs(d + "/tree", exist_ok=True)
    rc, out = sh(f"git -C {REPO} archive HEAD | tar -x -C {d}/tree")
    assert rc == 0, out
    return d


def apply(m, tree):
    edits = [(m["file"], m["old"], m["new"])] + EXTRA.get(m["name"], [])
    for f, old, new in edits:
        p = os.path.join(tree, f)
        s = open(p).read()
        if s.count(old) != 1:
            return f"pattern occurs {s.count(old)} times in {f}"
        open(p, "w").write(s.replace(old, new))
    return None


def run_mutant(args):
    m, slot, all_props = args
    d = prepare(slot)
    tree = d + "/tree"
    res = dict(name=m["name"], expected=m["props"], note=m.get("note", ""))
    err = apply(m, tree)
    if err:
        res["status"] = "apply-failed: " + err
        return res
    rc, out = sh("cargo test --offline 2>&1 | tail -n 80", cwd=tree, env={"CARGO_TARGET_DIR": d + "/repo-target"})
    oks = re.findall(r"test result: ok\. (\d+) passed; 0 failed", out)
    if ("error[" in out or "could not compile" in out) and not oks:
        res["status"] = "does-not-compile"
        res["log"] = out[-800:]
        return res
    if "test result: FAILED" in out or "70" not in oks or "5" not in oks:
        res["status"] = "fails-repo-tests"
        res["log"] = out[-600:]
        return res
    res["status"] = "ok"
    props = ALL_PROPS if all_props else sorted(set(m["props"]) | set(["C%02d" % i for i in []]))
    caught, missed, detail = [], [], {}
    for pid in props:
        t0 = time.time()
        rc, out = sh(f"{HERE}/tools/run_on_tree.sh {tree} {pid} --tier quick", env={"MUT_OUT": d + "/out", "MUT_TARGET": d + "/harness-target", "VERIF_SEED": "7"}, timeout=2400)
        line = [l for l in out.splitlines() if l.startswith("failure")][:1]
        detail[pid] = dict(exit=rc, secs=round(time.time() - t0, 1), first=(line[0][:220] if line else ""))
        if rc == 1:
            caught.append(pid)
        else:
            missed.append(pid)
    res.update(caught=caught, missed=missed, detail=detail)
    return res


def main():
    only = None
    jobs = 4
    all_props = False
    a = sys.argv[1:]
    while a:
        x = a.pop(0)
        if x == "--only":
            only = set(a.pop(0).split(","))
        elif x == "--jobs":
            jobs = int(a.pop(0))
        elif x == "--all-props":
            all_props = True
    muts = [m for m in M if not only or m["name"] in only or any(m["name"].startswith(o) for o in only)]
    os.makedirs(SCRATCH, exist_ok=True)
    results = []
    # one slot per worker: slots keep their cargo target dirs warm
    import queue, threading
    q = queue.Queue()
    for m in muts:
        q.put(m)
    lock = threading.Lock()

    def worker(slot):
        while True:
            try:
                m = q.get_nowait()
            except queue.Empty:
                return
            try:
                r = run_mutant((m, slot, all_props))
            except Exception as e:  # noqa
                r = dict(name=m["name"], status="harness-error: %r" % e, expected=m["props"])
            with lock:
                results.append(r)
                c = ",".join(r.get("caught", []))
                ms = ",".join(r.get("missed", []))
                print(f"{r['name']:40s} {r['status']:18s} caught[{c}] missed[{ms}]", flush=True)

    ts = [threading.Thread(target=worker, args=(i,)) for i in range(jobs)]
    [t.start() for t in ts]
    [t.join() for t in ts]
    results.sort(key=lambda r: r["name"])
    os.makedirs(os.path.join(HERE, "sensitivity"), exist_ok=True)
    outp = os.path.join(HERE, "sensitivity", "mutants.json")
    old = {}
    if only and os.path.exists(outp):
        old = {r["name"]: r for r in json.load(open(outp))}
    for r in results:
        old[r["name"]] = r
    json.dump(sorted(old.values(), key=lambda r: r["name"]) if old else results, open(outp, "w"), indent=1)
    bad = [r for r in results if r["status"] == "ok" and r.get("missed")]
    print(f"\n{len(results)} mutants; {sum(1 for r in results if r['status']=='ok')} valid; {len(bad)} with a missed expected property")


if __name__ == "__main__":
    main()
