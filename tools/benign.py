#!/usr/bin/env python3
"""Property-preserving changes (false-alarm probes); not a registered check.

  tools/benign.py add <dir-with-patch.diff+demo.rs+README.md> <name>   verify and store under benign/<name>/
  tools/benign.py run [<name> ...] [--props C03,C07]                     run all twenty (or the named) quick checks against each stored change
  tools/benign.py table

A change is kept if, on a scratch copy of /repo's HEAD: the patch applies, the crate compiles, the 70 + 5 tests pass with it,
and its demonstration passes WITH it and fails WITHOUT it (so it does change observable behaviour). Every check that then
reports a violation is a candidate false alarm: either the check demands more than its statement (fix the check) or the
change does break a statement after all (then it is reclassified, with the reason, in meta.json: "verdict").
"""
import json, os, re, shutil, subprocess, sys, time

HERE = os.path.dirname(os.path.dirname(os.path.abspath(__file__)))
REPO = "/repo"
SCR = "/tmp/hv-benign"
ALL = ["C%02d" % i for i in range(1, 21)]


def sh(cmd, cwd=None, env=None, timeout=7200):
    e = dict(os.environ)
    e["CARGO_NET_OFFLINE"] = "true"
    if env:
        e.update(env)
    p = subprocess.run(cmd, shell=True, cwd=cwd, env=e, stdout=subprocess.PIPE, stderr=subprocess.STDOUT, text=True, timeout=timeout)
    return p.returncode, p.stdout


def fresh_tree(slot):
    d = f"{SCR}/{slot}"
    shutil.rmtree(d + "/tree", ignore_errors=True)
    os.makedirs(d + "/tree", exist_ok=True)
    rc, out = sh(f"git -C {REPO} archive HEAD | tar -x -C {d}/tree")
    assert rc == 0, out
    return d, d + "/tree"


def rebase_patch(patch, slot):
    """A patch written against an older HEAD of /repo (a fix: commit landed since): three-way apply it in a scratch worktree
    and return the path of the regenerated diff, or None when it conflicts."""
    wt = f"{SCR}/rebase-{slot}"
    sh(f"git -C {REPO} worktree remove --force {wt}")
    rc, out = sh(f"git -C {REPO} worktree add --detach {wt} HEAD")
    if rc != 0:
        return None
    try:
        sh(f"git apply --3way --whitespace=nowarn {patch}", cwd=wt)
        rc, unmerged = sh("git diff --name-only --diff-filter=U", cwd=wt)
        if unmerged.strip():
            return None
        rc, diff = sh("git diff HEAD", cwd=wt)
        if not diff.strip():
            return None
        new = patch + ".rebased"
        open(new, "w").write(diff)
        return new
    finally:
        sh(f"git -C {REPO} worktree remove --force {wt}")


def tests_ok(out):
    oks = re.findall(r"test result: ok\. (\d+) passed; 0 failed", out)
    return "test result: FAILED" not in out and "70" in oks and "5" in oks


def add(src, name):
    d, tree = fresh_tree("add-" + name)
    tgt = {"CARGO_TARGET_DIR": d + "/repo-target"}
    patch, demo = os.path.join(src, "patch.diff"), os.path.join(src, "demo.rs")
    ran = []
    os.makedirs(tree + "/tests", exist_ok=True)
    shutil.copy(demo, tree + "/tests/benign_demo.rs")
    rc, out = sh("cargo test --offline --test benign_demo 2>&1 | tail -n 25", cwd=tree, env=tgt)
    clean_fails = "test result: FAILED" in out or "error" in out and "test result: ok" not in out
    ran.append("clean tree: demo -> " + ("fails (as required)" if clean_fails else "does NOT fail"))
    rc, out = sh(f"git apply --whitespace=nowarn {patch}", cwd=tree)
    applies = rc == 0
    if not applies:
        nb = rebase_patch(patch, "add-" + name)
        if nb:
            rc, out = sh(f"git apply --whitespace=nowarn {nb}", cwd=tree)
            applies = rc == 0
            if applies:
                patch = nb
                ran.append("patch was written against an older HEAD: rebased by three-way apply")
    ran.append("git apply -> " + ("ok" if applies else "FAILED " + out[-200:]))
    suite_ok = demo_pass = False
    if applies:
        os.remove(tree + "/tests/benign_demo.rs")
        rc, out = sh("cargo test --offline 2>&1 | tail -n 80", cwd=tree, env=tgt)
        suite_ok = tests_ok(out)
        ran.append("patched: 70 unit + 5 doc -> " + ("pass" if suite_ok else "FAIL"))
        shutil.copy(demo, tree + "/tests/benign_demo.rs")
        rc, out = sh("cargo test --offline --test benign_demo 2>&1 | tail -n 40", cwd=tree, env=tgt)
        demo_pass = rc == 0 and "test result: ok" in out and "FAILED" not in out
        ran.append("patched: demo -> " + ("passes" if demo_pass else "does NOT pass"))
    ok = clean_fails and applies and suite_ok and demo_pass
    print(name, "KEPT" if ok else "REJECTED", "; ".join(ran))
    if ok:
        o = os.path.join(HERE, "benign", name)
        os.makedirs(o, exist_ok=True)
        shutil.copy(patch, o + "/patch.diff")
        shutil.copy(demo, o + "/demo.rs")
        readme = open(os.path.join(src, "README.md")).read() if os.path.exists(os.path.join(src, "README.md")) else ""
        open(o + "/README.md", "w").write(readme)
        json.dump({"id": name, "kind": "property-preserving change (false-alarm probe)", "summary": readme.strip()[:1200], "verified": ran,
                   "files_touched": sorted(set(re.findall(r"^\+\+\+ b/(\S+)", open(patch).read(), re.M))), "alarms": {}, "verdict": ""},
                  open(o + "/meta.json", "w"), indent=1)
    shutil.rmtree(d, ignore_errors=True)
    return ok


def run(names, props=None):
    for name in names:
        o = os.path.join(HERE, "benign", name)
        meta = json.load(open(o + "/meta.json"))
        d, tree = fresh_tree("run-" + name)
        rc, out = sh(f"git apply --whitespace=nowarn {o}/patch.diff", cwd=tree)
        if rc != 0:
            print(f"{name:24s} does not apply to the current HEAD (superseded): skipped", flush=True)
            continue
        if props is None:
            meta["alarms"] = {}
        else:
            for pid in props:
                meta["alarms"].pop(pid, None)
        for pid in (props or ALL):
            t0 = time.time()
            for attempt in range(4):
                rc, out = sh(f"{HERE}/tools/run_on_tree.sh {tree} {pid} --tier quick", env={"MUT_OUT": d + "/out", "MUT_TARGET": f"{SCR}/harness-target-" + os.environ.get("SEEDED_SLOT", "0"), "VERIF_SEED": "5"})
                if rc != 2:
                    break
                time.sleep(45)
            first = [l for l in out.splitlines() if l.startswith("failure")][:1]
            if rc != 0:
                meta["alarms"][pid] = {"exit": rc, "secs": round(time.time() - t0, 1), "first_failure": first[0][:400] if first else out[-300:]}
            json.dump(meta, open(o + "/meta.json", "w"), indent=1)
        print(f"{name:24s} alarms={','.join(sorted(meta['alarms'])) or '-'}", flush=True)
        shutil.rmtree(d + "/tree", ignore_errors=True)
        shutil.rmtree(d + "/out", ignore_errors=True)


def table():
    b = os.path.join(HERE, "benign")
    for n in sorted(os.listdir(b)):
        m = json.load(open(os.path.join(b, n, "meta.json")))
        print(f"{n:24s} alarms={','.join(sorted(m['alarms'])) or '-':20s} {m.get('verdict', '')[:120]}")


if __name__ == "__main__":
    a = sys.argv[1:]
    if a and a[0] == "add":
        sys.exit(0 if add(a[1], a[2]) else 1)
    elif a and a[0] == "run":
        props = None
        rest = a[1:]
        if "--props" in rest:
            i = rest.index("--props")
            props = rest[i + 1].split(",")
            rest = rest[:i] + rest[i + 2:]
        names = rest or sorted(os.listdir(os.path.join(HERE, "benign")))
        run(names, props)
    elif a and a[0] == "table":
        table()
