#!/usr/bin/env python3
"""Build the committed coverage corpora (not a registered check).

  tools/covcorpus.py <ID> [<ID> ...] [--runs N] [--max-units K]

For each property: runs the thorough tier's coverage-guided stage only (VERIF_STAGES=tapefuzz) with VERIF_TAPEFUZZ_KEEP, which
leaves the libFuzzer-merged (coverage-minimal) corpus of every random stage in a scratch directory, and writes
corpus/<ID>/cov-<stage>.json = {"property", "stage", "mode": "bytes", "tapes_hex": [...]} (an even spread over the size-sorted units, at most K).
Both tiers replay these files first, like every other file under corpus/<ID>/. The evidence file is restored afterwards.
"""
import json, os, shutil, subprocess, sys

HERE = os.path.dirname(os.path.dirname(os.path.abspath(__file__)))


def main():
    a = sys.argv[1:]
    ids, runs, maxu = [], "120000", 400
    i = 0
    while i < len(a):
        if a[i] == "--runs":
            runs = a[i + 1]; i += 2
        elif a[i] == "--max-units":
            maxu = int(a[i + 1]); i += 2
        else:
            ids.append(a[i]); i += 1
    keep = "/tmp/hv-covkeep"
    for pid in ids:
        shutil.rmtree(keep, ignore_errors=True)
        os.makedirs(keep)
        env = dict(os.environ, VERIF_STAGES="tapefuzz", VERIF_TAPEFUZZ_KEEP=keep, VERIF_TAPEFUZZ_RUNS=runs)
        ev = os.path.join(HERE, "evidence", pid + ".json")
        saved = open(ev).read() if os.path.exists(ev) else None
        p = subprocess.run([os.path.join(HERE, "check"), pid, "--tier", "thorough"], env=env, stdout=subprocess.PIPE, stderr=subprocess.STDOUT, text=True)
        if saved is not None:
            open(ev, "w").write(saved)
        tail = [l for l in p.stdout.splitlines() if l.startswith(pid) or l.startswith("VIOLATION") or l.startswith("failure")]
        print("\n".join(tail))
        if p.returncode != 0:
            print(pid, "campaign ended with exit", p.returncode, "- corpus not updated")
            continue
        for d in sorted(os.listdir(keep)):
            if not d.startswith(pid + "-"):
                continue
            stage = d[len(pid) + 1:]
            units = []
            for f in os.listdir(os.path.join(keep, d)):
                b = open(os.path.join(keep, d, f), "rb").read()
                if b:
                    units.append(b)
            units.sort(key=lambda b: (len(b), b))
            if len(units) > maxu:
                # an even spread over the size-sorted list: the short tapes (simple cases) and the long ones (deep histories) alike
                units = [units[(i * (len(units) - 1)) // (maxu - 1)] for i in range(maxu)]
            out = os.path.join(HERE, "corpus", pid, f"cov-{stage}.json")
            os.makedirs(os.path.dirname(out), exist_ok=True)
            json.dump({"property": pid, "stage": stage, "mode": "bytes",
                       "note": "coverage-minimal tapes kept by a libFuzzer campaign over this stage's decoder (tools/covcorpus.py); replayed by both tiers",
                       "tapes_hex": [u.hex() for u in units]}, open(out, "w"))
            print(f"{pid} {stage}: {len(units)} tapes, {sum(map(len, units))} bytes -> {out}")
    shutil.rmtree(keep, ignore_errors=True)


if __name__ == "__main__":
    main()
